#!/usr/bin/env python3
"""Prepare scratch worktrees and prompts for a new round of seeded-defect sub-agents.
usage: spawn_prompts.py <round letter> <prop> [<prop> ...]
Each prompt contains only the property text, generic instructions, and the list of library changes
already produced for that property (summaries written by earlier sub-agents) to avoid repeats."""
import sys, json, glob, os, subprocess
rnd = sys.argv[1]
props = sys.argv[2:]
tmpl = open('/tmp/mut/PROMPT.tmpl').read() if os.path.exists('/tmp/mut/PROMPT.tmpl') else open('/verif/tools/PROMPT.tmpl').read()
for l in open('/verif/properties.jsonl'):
    d = json.loads(l)
    if d['id'] not in props:
        continue
    p = d['id']
    text = "%s — %s\n\nStatement: %s\n\nQuantifier (%s): %s\n" % (p, d['title'], d['statement'], ', '.join(d['quantifier']['over']), d['quantifier']['text'])
    done = []
    for m in sorted(glob.glob('/verif/seeded/%s-?/meta.json' % p)):
        try:
            done.append('- ' + json.load(open(m)).get('summary', '').replace('\n', ' ')[:400])
        except Exception:
            pass
    extra = ""
    if done:
        extra = "\nAdditional instruction: the following changes were already produced for this property. Do NOT repeat them, do not produce a trivial variation of one of them, and prefer a different source file / mechanism / triggering condition:\n" + "\n".join(done) + "\n"
    if p == 'C19':
        extra += "\nNote for this property: the crate has a cargo feature `alloc` (default on); `cargo test --no-default-features` builds without it. Your demonstration may have to be run with `--no-default-features`; state the exact command in meta.json. The existing suite must still pass with default features.\n"
    wt = '/tmp/mut/%s%s' % (p, rnd)
    subprocess.run(['git', '-C', '/repo', 'worktree', 'add', '-q', '--detach', wt, 'HEAD'], check=True)
    x = tmpl.replace('WORKTREE', wt).replace('PROPERTY_TEXT', text + extra).replace('PROP_ID', p)
    open('/tmp/mut/%s%s.prompt.txt' % (p, rnd), 'w').write(x)
    print(wt)
