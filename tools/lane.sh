#!/bin/sh
# usage: lane.sh <scratch dir> <list file> ; each line of the list: <name> <patch path> <prop> [<prop> ...]
# Runs tools/run_mutant_iso.sh for every line in its own scratch directory (several lanes can run side by side).
CAMPDIR=$1; LIST=$2
cd /verif
while read -r name patch props; do
  [ -z "$name" ] && continue
  echo "== $name"
  CAMP=$CAMPDIR tools/run_mutant_iso.sh $patch $props
done < "$LIST"
