#!/bin/sh
# usage: confirm_mutant.sh <worktree with mutant/patch.diff and mutant/mutant_demo.rs>
# Confirms independently: (1) patch applies to a clean checkout, (2) the existing suite passes with it,
# (3) the demo fails with it, (4) the demo passes without it. Prints a one-line verdict.
W=$1
export CARGO_TARGET_DIR=/tmp/mut/target-shared
cd "$W" || exit 2
git checkout -q -- src 2>/dev/null
rm -f tests/mutant_demo.rs
git apply --check mutant/patch.diff || { echo "$W: patch does not apply"; exit 1; }
# without the change: demo must pass
cp mutant/mutant_demo.rs tests/mutant_demo.rs
if cargo test --offline --test mutant_demo >/tmp/mut/confirm.log 2>&1; then clean_demo=pass; else clean_demo=FAIL; fi
git apply mutant/patch.diff
if cargo test --offline --test mutant_demo >>/tmp/mut/confirm.log 2>&1; then mut_demo=PASS; else mut_demo=fail; fi
rm -f tests/mutant_demo.rs
if cargo test --workspace --no-fail-fast --offline >/tmp/mut/confirm-suite.log 2>&1; then suite=pass; else suite=FAIL; fi
n=$(grep -E "^test result: ok" /tmp/mut/confirm-suite.log | awk '{s+=$4} END {print s}')
git checkout -q -- src
echo "$W: demo-without-change=$clean_demo demo-with-change=$mut_demo suite-with-change=$suite ($n tests passed)"
