#!/bin/sh
# usage: run_mutant.sh <patch file> <prop> [<prop> ...]
# Applies the patch to /repo, runs the quick checks of the given properties, restores /repo.
# Prints one line per property: <prop> exit=<code> <first VIOLATION line or ->
PATCH=$1; shift
cd /repo || exit 2
if ! git diff --quiet; then echo "run_mutant: /repo has uncommitted changes" >&2; exit 2; fi
if ! git apply "$PATCH"; then echo "run_mutant: patch does not apply" >&2; exit 2; fi
trap 'git -C /repo checkout -- . ' EXIT INT TERM
mkdir -p /verif/work/mutout
cd /verif
for p in "$@"; do
    out=$(ANYSIM_HOME=/verif/work/mutout VERIF_RUNS=${MUT_RUNS:-60000} ./check $p quick 2>/verif/work/mutant-$p.err)
    code=$?
    first=$(echo "$out" | grep -m1 "^VIOLATION" || echo "-")
    sig=$(grep -m1 "^\[anysim\]   " /verif/work/mutant-$p.err | cut -c1-200)
    echo "$p exit=$code $first $sig"
done
