#!/bin/sh
# usage: run_mutant_iso.sh <patch file> <prop> [<prop> ...]
# Like run_mutant.sh, but isolated: the patch is applied to a scratch copy of /repo, a snapshot of
# /verif/sim is built against that copy (cargo `paths` override) into a scratch target directory,
# and all output goes to a scratch directory. /repo and /verif are not touched, so development can
# go on meanwhile. Final confirmation of a seeded change still uses run_mutant.sh on /repo itself.
PATCH=$1; shift
CAMP=${CAMP:-/tmp/camp}
mkdir -p "$CAMP/out"
rm -rf "$CAMP/repo" "$CAMP/sim"
git -C /repo worktree prune
git -C /repo worktree add -q --detach "$CAMP/repo" HEAD || exit 2
if ! git -C "$CAMP/repo" apply "$PATCH"; then echo "run_mutant_iso: patch does not apply" >&2; git -C /repo worktree remove --force "$CAMP/repo"; exit 2; fi
mkdir -p "$CAMP/sim"
(cd /verif/sim && tar cf - --exclude=target .) | (cd "$CAMP/sim" && tar xf -)
sed -i 's#target-dir = "/verif/target"#target-dir = "'"$CAMP"'/target"#' "$CAMP/sim/.cargo/config.toml"
cd "$CAMP/sim" || exit 2
if ! cargo build --release --offline -p anysim --config "paths=[\"$CAMP/repo\"]" >"$CAMP/out/build.log" 2>&1; then
    echo "run_mutant_iso: build failed" >&2; grep -E "^error" -A 8 "$CAMP/out/build.log" | head -30 >&2
    git -C /repo worktree remove --force "$CAMP/repo"; exit 2
fi
for p in "$@"; do
    out=$(ANYSIM_HOME="$CAMP/out" VERIF_RUNS=${MUT_RUNS:-60000} "$CAMP/target/release/anysim" check $p quick 2>"$CAMP/out/mutant-$p.err")
    code=$?
    first=$(echo "$out" | grep -m1 "^VIOLATION" || echo "-")
    sig=$(grep -m1 "^\[anysim\]   " "$CAMP/out/mutant-$p.err" | cut -c1-200)
    echo "$p exit=$code $first $sig"
done
git -C /repo worktree remove --force "$CAMP/repo"
