#!/bin/sh
# Determinism self-test: the same (VERIF_SEED, index) must give the same scenario and the same
# event-log hash (a) when run twice in fresh processes, (b) whether a run is executed after 1999
# predecessors in one process or in a different chunking over 16 processes (no state leaks from
# run to run), (c) under a different worker count. Exit 0 = identical, 2 = harness nondeterminism.
T=/verif/target/release/anysim
N=${SELFTEST_N:-4000}
W=/verif/work/selftest.$$
mkdir -p "$W"
rc=0
for p in C01 C02 C03 C04 C05 C06 C07 C08 C09 C10 C11 C12 C13 C14 C17 C18 C19; do
    "$T" selftest-determinism $p $N 0 > "$W/one-$p" &
    "$T" selftest-determinism $p $N 0 > "$W/two-$p" &
    chunk=$((N / 16))
    i=0
    while [ $i -lt 16 ]; do
        "$T" selftest-determinism $p $chunk $((i * chunk)) > "$W/chunk-$p-$i" &
        i=$((i + 1))
    done
    wait
    i=0; : > "$W/chunks-$p"
    while [ $i -lt 16 ]; do cat "$W/chunk-$p-$i" >> "$W/chunks-$p"; i=$((i + 1)); done
    if cmp -s "$W/one-$p" "$W/two-$p" && cmp -s "$W/one-$p" "$W/chunks-$p"; then
        echo "selftest $p: $N runs identical (2 processes, and 16-way chunking vs sequential)"
    else
        echo "selftest $p: EVENT LOGS DIFFER - harness nondeterminism" >&2
        diff "$W/one-$p" "$W/chunks-$p" | head -5 >&2
        rc=2
    fi
done
# cross-profile: on a tree where the properties hold, the checked-profile build (debug assertions,
# overflow checks) must produce the same event logs as the release-like build
C=/verif/target/checked/anysim
if [ -x "$C" ]; then
    for p in C01 C02 C06 C10; do
        "$T" selftest-determinism $p 2000 0 > "$W/rel-$p" &
        "$C" selftest-determinism $p 2000 0 > "$W/chk-$p" &
        wait
        if cmp -s "$W/rel-$p" "$W/chk-$p"; then
            echo "selftest $p: 2000 runs identical in the release-like and the checked profile"
        else
            echo "selftest $p: event logs differ between the release-like and the checked profile" >&2
            diff "$W/rel-$p" "$W/chk-$p" | head -5 >&2
            rc=2
        fi
    done
fi
rm -rf "$W"
exit $rc
