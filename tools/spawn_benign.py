#!/usr/bin/env python3
"""Prepare scratch worktrees and prompts for sub-agents that write harmless (property-preserving) changes.
usage: spawn_benign.py <round letter>"""
import sys, json, subprocess
rnd = sys.argv[1]
tmpl = open('/verif/tools/PROMPT_BENIGN.tmpl').read()
text = ""
for l in open('/verif/properties.jsonl'):
    d = json.loads(l)
    text += "%s - %s\n  %s\n  Quantifier: %s\n\n" % (d['id'], d['title'], d['statement'], d['quantifier']['text'])
focus = {
 'cap': "heap storage management and capacity policy (src/mem/heap.rs, reserve/shrink paths in src/any_vec_raw.rs and src/any_vec.rs, growth on push/insert/splice)",
 'panic': "behaviour while user code (element Drop, element Clone, a replacement iterator) panics: what gets leaked, in which order things happen, which intermediate state is held while user code runs (src/ops/*.rs, src/any_vec_raw.rs clear/drop, clone paths)",
 'range': "drain and splice internals (src/ops/drain.rs, src/ops/splice.rs, src/ops/iter.rs, range handling in src/any_vec.rs)",
 'clone': "clone, clone_empty, clone_empty_in, lazy clones and value copying helpers (src/any_vec.rs, src/any_vec_raw.rs, src/any_value/*.rs, src/clone_type.rs, copy_bytes)",
 'handle': "element handles, removal handles (pop/remove/swap_remove temp values), iterators and typed/byte views (src/element.rs, src/iter.rs, src/ops/temp.rs, src/ops/remove.rs, src/ops/swap_remove.rs, src/ops/pop.rs, src/any_vec_typed.rs)",
 'stack': "stack / fixed-capacity backends, the Mem/MemBuilder interface usage, raw parts, and type checks (src/mem/stack.rs, src/mem/stack_n.rs, src/mem/empty.rs, src/mem/mod.rs, from_raw_parts/into_raw_parts, downcast/type-id checks)",
}
if rnd != 'a':
    focus = {
     'typed': "the typed view AnyVecTyped / AnyVecRef / AnyVecMut and the downcast paths of the vector (src/any_vec_typed.rs, downcast_* in src/any_vec.rs): typed push/insert/pop/remove/swap_remove/clear/drain/splice/iterators/slices/reserve/shrink",
     'values': "the any_value module: AnyValueWrapper, AnyValueRaw, AnyValueSizelessRaw / TypelessRaw, LazyClone, the AnyValue* trait default methods (downcast, downcast_ref/mut, move_into, swap, as_bytes) in src/any_value/*.rs",
     'resize': "how the vector talks to its storage: use of Mem::expand / expand_exact / resize in src/any_vec_raw.rs and src/mem/*.rs, the amortisation policy, realloc vs alloc+copy+dealloc, what happens around capacity 0, shrink policies where the properties leave freedom (note: C10 and C18 pin several things down exactly - read them twice)",
     'checks': "argument and state validation: the order of checks, which of several legal panics fires first and with what message, additional defensive assertions that can never fire on valid input, early returns for degenerate inputs (empty range, zero-sized types, zero counts) - anywhere under src/",
     'splice2': "an alternative but equivalent algorithm inside src/ops/splice.rs and src/ops/drain.rs (e.g. different order of moving the tail and writing the replacement where user code cannot observe it, moving elements one by one vs in bulk, different bookkeeping fields), keeping the documented forget/panic behaviour within what C06/C07 allow",
     'clone2': "clone / clone_empty / clone_empty_in / LazyClone consumption and the CloneFn / DropFn plumbing (src/clone_type.rs, src/any_vec_raw.rs, src/any_vec.rs, src/any_value/lazy_clone.rs): e.g. chunked cloning, cloning back to front?? (check C08 first), capacity choice of the clone, order of building storage vs reading the source",
    }
    done = json.load(open('/verif/seeded/benign/META.json'))
    tmpl = tmpl.replace("Your task: produce THREE", "The following harmless changes already exist; do NOT repeat them or produce a trivial variation of one of them:\n" + "\n".join("- " + v['summary'].replace('\n', ' ')[:300] for k, v in sorted(done.items()) if k.startswith('a-')) + "\n\nYour task: produce THREE")
for k, f in focus.items():
    wt = '/tmp/mut/B%s-%s' % (rnd, k)
    subprocess.run(['git', '-C', '/repo', 'worktree', 'add', '-q', '--detach', wt, 'HEAD'], check=True)
    x = tmpl.replace('WORKTREE', wt).replace('PROPERTY_TEXT', text).replace('FOCUS_TEXT', f)
    open('/tmp/mut/B%s-%s.prompt.txt' % (rnd, k), 'w').write(x)
    print(wt)
