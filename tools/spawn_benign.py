#!/usr/bin/env python3
"""Prepare scratch worktrees and prompts for sub-agents that write harmless (property-preserving) changes.
usage: spawn_benign.py <round letter>"""
import sys, json, subprocess
rnd = sys.argv[1]
tmpl = open('/verif/tools/PROMPT_BENIGN.tmpl').read()
text = ""
for l in open('/verif/properties.jsonl'):
    d = json.loads(l)
    text += "%s - %s\n  %s\n  Quantifier: %s\n\n" % (d['id'], d['title'], d['statement'], d['quantifier']['text'])
focus = {
 'cap': "heap storage management and capacity policy (src/mem/heap.rs, reserve/shrink paths in src/any_vec_raw.rs and src/any_vec.rs, growth on push/insert/splice)",
 'panic': "behaviour while user code (element Drop, element Clone, a replacement iterator) panics: what gets leaked, in which order things happen, which intermediate state is held while user code runs (src/ops/*.rs, src/any_vec_raw.rs clear/drop, clone paths)",
 'range': "drain and splice internals (src/ops/drain.rs, src/ops/splice.rs, src/ops/iter.rs, range handling in src/any_vec.rs)",
 'clone': "clone, clone_empty, clone_empty_in, lazy clones and value copying helpers (src/any_vec.rs, src/any_vec_raw.rs, src/any_value/*.rs, src/clone_type.rs, copy_bytes)",
 'handle': "element handles, removal handles (pop/remove/swap_remove temp values), iterators and typed/byte views (src/element.rs, src/iter.rs, src/ops/temp.rs, src/ops/remove.rs, src/ops/swap_remove.rs, src/ops/pop.rs, src/any_vec_typed.rs)",
 'stack': "stack / fixed-capacity backends, the Mem/MemBuilder interface usage, raw parts, and type checks (src/mem/stack.rs, src/mem/stack_n.rs, src/mem/empty.rs, src/mem/mod.rs, from_raw_parts/into_raw_parts, downcast/type-id checks)",
}
for k, f in focus.items():
    wt = '/tmp/mut/B%s-%s' % (rnd, k)
    subprocess.run(['git', '-C', '/repo', 'worktree', 'add', '-q', '--detach', wt, 'HEAD'], check=True)
    x = tmpl.replace('WORKTREE', wt).replace('PROPERTY_TEXT', text).replace('FOCUS_TEXT', f)
    open('/tmp/mut/B%s-%s.prompt.txt' % (rnd, k), 'w').write(x)
    print(wt)
