#!/bin/sh
# Run the thorough tier of every check from a snapshot of /verif/sim (own target and output
# directories under $TS), so that development in /verif can go on. Informational: evidence files
# that are committed are always written by ./check in /verif itself.
TS=${TS:-/tmp/tsweep}
rm -rf "$TS/sim"; mkdir -p "$TS/sim" "$TS/out"
(cd /verif/sim && tar cf - --exclude=target .) | (cd "$TS/sim" && tar xf -)
sed -i 's#target-dir = "/verif/target"#target-dir = "'"$TS"'/target"#' "$TS/sim/.cargo/config.toml"
cd "$TS/sim" || exit 2
cargo build --release --offline -p anysim >"$TS/out/build.log" 2>&1 || { echo build failed; exit 2; }
cargo build --profile checked --offline -p anysim >"$TS/out/build-checked.log" 2>&1 || { echo checked build failed; exit 2; }
cargo build --release --offline -p anysim --no-default-features --target-dir "$TS/out/target-noalloc" >"$TS/out/build-noalloc.log" 2>&1 || { echo noalloc build failed; exit 2; }
export ANYSIM_HOME="$TS/out"
for p in ${PROPS:-C01 C02 C03 C04 C05 C06 C07 C08 C09 C10 C11 C12 C13 C14 C17 C18 C19}; do
    echo "== $p $(date +%T)"
    "$TS/target/checked/anysim" check $p thorough-checked 2>&1 | grep -v KNOWN-FINDING | grep -E "thorough|VIOLATION|harness|  [a-z-]+/" | cut -c1-250
    echo "checked exit=$?"
    case $p in C03|C05|C18)
        ANYSIM_ENGINE=valgrind "$TS/target/release/anysim" check $p thorough-valgrind 2>&1 | grep -v KNOWN-FINDING | grep -E "thorough|VIOLATION|harness|  [a-z-]+/" | cut -c1-250
        ;;
    esac
    "$TS/target/release/anysim" check $p thorough > "$TS/out/$p.out" 2> "$TS/out/$p.err"
    echo "release exit=$?"
    grep -v KNOWN-FINDING "$TS/out/$p.out" | head -5
    grep -E "thorough:|  [a-z-]+/" "$TS/out/$p.err" | cut -c1-250
done
echo "== done $(date +%T)"
