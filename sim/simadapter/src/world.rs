//! The generic world: three vectors of element type `E` and constraint set `Tr`
//! (slots 0,1 on back end `MA`, slot 2 on `MB`), a pool of extracted values,
//! and one method per concrete step. Implements the object-safe `WorldOps`.

use crate::backend::Backend;
use crate::elems::{decode, Elem, Twin, Wrong};
use crate::simmem::SimBuilder;
use crate::placed::Placed;
use crate::trset::TrSet;
use any_vec::any_value::{
    AnyValue, AnyValueMut, AnyValueRaw, AnyValueSizeless, AnyValueSizelessRaw, AnyValueTypeless, AnyValueTypelessRaw, AnyValueWrapper,
};
use any_vec::element::Element;
use crate::backend::MemB;
#[allow(unused_imports)]
use any_vec::mem::MemBuilder;
use any_vec::{AnyVec, ElementIterator, SatisfyTraits};
use simcore::env::{DEAD, POISON, SPARE_POISON};
use simcore::registry::{harness, lib};
use simcore::types::*;
use std::any::TypeId;
use std::marker::PhantomData;
use std::mem::{size_of, ManuallyDrop};
use std::ops::{Bound, Deref};
use std::panic::{catch_unwind, AssertUnwindSafe};
use std::ptr::NonNull;

pub struct Cx<'c, E> {
    pub ev: &'c mut Vec<Ev>,
    pub pool: &'c mut Vec<E>,
    pub diag: &'c mut String,
}

/// Owns a value that is offered to the library through a raw (non-owning)
/// `AnyValue*Raw`. If the library did not take it (panic before the move), the
/// harness drops it, as the caller of a raw API must.
pub struct RawOwned<E> {
    val: ManuallyDrop<E>,
    pub consumed: bool,
}
impl<E> RawOwned<E> {
    pub fn new(v: E) -> Self {
        RawOwned { val: ManuallyDrop::new(v), consumed: false }
    }
    pub fn ptr(&mut self) -> NonNull<u8> {
        NonNull::from(&mut *self.val).cast::<u8>()
    }
}
impl<E> Drop for RawOwned<E> {
    fn drop(&mut self) {
        if !self.consumed {
            harness(|| unsafe { ManuallyDrop::drop(&mut self.val) });
        }
    }
}

/// Replacement-iterator wrapper = simulated user code with faults F3 / F4. The k-th call the
/// library makes to it - `next()`, or `len()` / `size_hint()` - may panic (F3); `len()` may lie (F4).
pub struct FaultIter<I> {
    inner: I,
    calls: std::cell::Cell<u32>,
    panic_at: u32,
    lie: i32,
}
impl<I> FaultIter<I> {
    pub fn new(inner: I, panic_at: u32, lie: i32) -> Self {
        FaultIter { inner, calls: std::cell::Cell::new(0), panic_at, lie }
    }
    #[inline]
    fn call(&self, what: &'static str) {
        if !simcore::registry::in_lib() {
            return;
        }
        self.calls.set(self.calls.get() + 1);
        simcore::faultpoints::note_next();
        if self.panic_at != 0 && self.calls.get() == self.panic_at && !std::thread::panicking() {
            simcore::faultpoints::note_next_fired();
            std::panic::panic_any(simcore::registry::Injected(what));
        }
    }
}
impl<I: ExactSizeIterator> Iterator for FaultIter<I> {
    type Item = I::Item;
    fn next(&mut self) -> Option<I::Item> {
        self.call("next");
        self.inner.next()
    }
    fn size_hint(&self) -> (usize, Option<usize>) {
        let n = self.len();
        (n, Some(n))
    }
}
impl<I: ExactSizeIterator> ExactSizeIterator for FaultIter<I> {
    fn len(&self) -> usize {
        self.call("len");
        let n = self.inner.len() as i64 + self.lie as i64;
        if self.lie != 0 {
            simcore::faultpoints::note_len_lie();
        }
        n.max(0) as usize
    }
}

/// Batch of values offered as `AnyValueRaw` replacement items.
pub struct RawBatch<E> {
    vals: Vec<ManuallyDrop<E>>,
    yielded: std::cell::Cell<usize>,
}
impl<E: Elem> RawBatch<E> {
    pub fn new(tags: &[u64]) -> Self {
        RawBatch { vals: tags.iter().map(|t| ManuallyDrop::new(E::make(*t))).collect(), yielded: std::cell::Cell::new(0) }
    }
    pub fn iter(&self) -> RawBatchIter<'_, E> {
        RawBatchIter { b: self, k: 0 }
    }
}
impl<E> Drop for RawBatch<E> {
    fn drop(&mut self) {
        let y = self.yielded.get();
        harness(|| {
            for v in self.vals.iter_mut().skip(y) {
                unsafe { ManuallyDrop::drop(v) };
            }
        });
    }
}
pub struct RawBatchIter<'b, E> {
    b: &'b RawBatch<E>,
    k: usize,
}
impl<'b, E: Elem> Iterator for RawBatchIter<'b, E> {
    type Item = AnyValueRaw;
    fn next(&mut self) -> Option<AnyValueRaw> {
        if self.k >= self.b.vals.len() {
            return None;
        }
        let p = &*self.b.vals[self.k] as *const E as *mut u8;
        self.k += 1;
        self.b.yielded.set(self.k);
        Some(unsafe { AnyValueRaw::new(NonNull::new_unchecked(p), size_of::<E>(), TypeId::of::<E>()) })
    }
    fn size_hint(&self) -> (usize, Option<usize>) {
        let n = self.b.vals.len() - self.k;
        (n, Some(n))
    }
}
impl<'b, E: Elem> ExactSizeIterator for RawBatchIter<'b, E> {}

/// Object-safe face of drain / splice iterators, so that the consumption
/// script is compiled once per (Tr, M) and not per replacement-iterator type.
pub trait DIter<'a, Tr: ?Sized + TrSet, M: MemB> {
    fn next_(&mut self) -> Option<Element<'a, Tr, M>>;
    fn next_back_(&mut self) -> Option<Element<'a, Tr, M>>;
    fn len_(&self) -> usize;
    fn hint_(&self) -> (usize, Option<usize>);
}
impl<'a, Tr: ?Sized + TrSet, M: MemB, I> DIter<'a, Tr, M> for I
where
    I: DoubleEndedIterator<Item = Element<'a, Tr, M>> + ExactSizeIterator,
{
    fn next_(&mut self) -> Option<Element<'a, Tr, M>> {
        lib(|| self.next())
    }
    fn next_back_(&mut self) -> Option<Element<'a, Tr, M>> {
        lib(|| self.next_back())
    }
    fn len_(&self) -> usize {
        lib(|| self.len())
    }
    fn hint_(&self) -> (usize, Option<usize>) {
        lib(|| self.size_hint())
    }
}

#[inline]
pub fn tag_of<V: AnyValue, E: Elem>(v: &V) -> Ev {
    match lib(|| v.downcast_ref::<E>()) {
        Some(x) => {
            let t = x.tag();
            if t == simcore::registry::INVALID_TAG {
                Ev::BadVal
            } else {
                Ev::Val(t)
            }
        }
        None => Ev::BadVal,
    }
}
#[inline]
fn val_ev(t: u64) -> Ev {
    if t == simcore::registry::INVALID_TAG {
        Ev::BadVal
    } else {
        Ev::Val(t)
    }
}

/// type id / size / bytes reported by a handle describe the real element
pub fn inspect_ok<V: AnyValue, E: Elem>(v: &V, expect: Ev) -> bool {
    let tid = lib(|| v.value_typeid()) == TypeId::of::<E>();
    let sz = lib(|| v.size()) == size_of::<E>();
    let bytes = lib(|| v.as_bytes());
    let t = if bytes.len() == size_of::<E>() { unsafe { decode(bytes.as_ptr(), size_of::<E>()) } } else { u64::MAX };
    tid && sz && val_ev(t) == expect && (bytes.as_ptr() as usize) % std::mem::align_of::<E>() == 0
}

#[macro_export]
macro_rules! put_value {
    ($dst:expr, $r:expr, $v:expr) => {{
        let v = $v;
        match ($r.via, $r.form) {
            (VIA_UNCHECKED, 0) => lib(|| unsafe { $dst.push_unchecked(v) }),
            (VIA_UNCHECKED, _) => lib(|| unsafe { $dst.insert_unchecked($r.i, v) }),
            (_, 0) => lib(|| $dst.push(v)),
            (_, _) => lib(|| $dst.insert($r.i, v)),
        }
    }};
}
macro_rules! put_unchecked {
    ($dst:expr, $r:expr, $v:expr) => {{
        let v = $v;
        if $r.form == 0 {
            lib(|| unsafe { $dst.push_unchecked(v) })
        } else {
            lib(|| unsafe { $dst.insert_unchecked($r.i, v) })
        }
    }};
}

/// Expand `$body` once per range form with `$rg` bound to a value of the
/// matching *concrete* std range type.
#[macro_export]
macro_rules! with_range {
    ($r:expr, |$rg:ident| $body:expr) => {{
        let s = match $r.lo {
            Bnd::Inc(x) | Bnd::Exc(x) => x,
            Bnd::Unb => 0,
        };
        let e = match $r.hi {
            Bnd::Inc(x) | Bnd::Exc(x) => x,
            Bnd::Unb => 0,
        };
        match $r.form {
            0 => {
                let $rg = s..e;
                $body
            }
            1 => {
                let $rg = s..=e;
                $body
            }
            2 => {
                let $rg = ..e;
                $body
            }
            3 => {
                let $rg = ..=e;
                $body
            }
            4 => {
                let $rg = s..;
                $body
            }
            5 => {
                let $rg = ..;
                $body
            }
            6 => {
                let $rg = (Bound::Excluded(s), Bound::Included(e));
                $body
            }
            7 => {
                let $rg = (Bound::Excluded(s), Bound::Excluded(e));
                $body
            }
            _ => {
                let $rg = (Bound::Excluded(s), Bound::<usize>::Unbounded);
                $body
            }
        }
    }};
}

// -------------------------------------------------------------------------------------------
// free generic step functions
// -------------------------------------------------------------------------------------------

pub fn typed_ptr<E: Elem, Tr: ?Sized + TrSet, M: MemB>(v: &AnyVec<Tr, M>) -> *const u8 {
    match lib(|| v.downcast_ref::<E>()) {
        Some(t) => lib(|| t.as_ptr()) as *const u8,
        None => std::ptr::null(),
    }
}

pub fn snapshot_of<E: Elem, Tr: ?Sized + TrSet, M: MemB>(v: &AnyVec<Tr, M>) -> Snap {
    let len = lib(|| v.len());
    let cap = lib(|| v.capacity());
    let mut s = Snap { exists: true, len, cap, tags: Vec::new(), views_ok: true, aligned: true, len_le_cap: len <= cap, storage_addr: 0, object_guards_ok: true, spare_bad: None };
    let base = typed_ptr::<E, Tr, M>(v);
    if base.is_null() {
        s.views_ok = false;
        return s;
    }
    s.storage_addr = base as usize;
    s.aligned = (base as usize) % std::mem::align_of::<E>() == 0;
    if !s.aligned {
        // never form typed references to misaligned storage (this is finding D10; typed access
        // to misaligned over-aligned data faults on x86)
        return s;
    }
    if !s.len_le_cap {
        // do not touch the storage of a vector that claims more elements than it has room for
        return s;
    }
    let size = size_of::<E>();
    s.tags.reserve(len);
    for i in 0..len {
        s.tags.push(unsafe { E::read_tag(base.add(i * size)) });
    }
    // cheap coherence of the other read-only reports
    let bytes = lib(|| v.as_bytes());
    let tv = lib(|| v.downcast_ref::<E>()).unwrap();
    s.views_ok = bytes.len() == len * size
        && (len * size == 0 || bytes.as_ptr() == base)
        && lib(|| v.is_empty()) == (len == 0)
        && lib(|| tv.len()) == len
        && lib(|| tv.capacity()) == cap
        && lib(|| tv.as_slice()).len() == len
        && lib(|| v.element_typeid()) == TypeId::of::<E>()
        && lib(|| v.element_layout()) == std::alloc::Layout::new::<E>()
        && lib(|| v.downcast_ref::<Wrong>()).is_none();
    s
}

/// Fill the spare capacity with poison (legal: the API hands it out as MaybeUninit). The byte
/// depends on the slot index, so that a copy of one spare slot into another is recognisable.
pub fn poison_spare<E: Elem, Tr: ?Sized + TrSet, M: MemB>(v: &mut AnyVec<Tr, M>) -> bool {
    let len = v.len();
    let cap = v.capacity();
    let size = size_of::<E>();
    if size == 0 || len > cap || cap > (1 << 22) {
        return false;
    }
    let base = match lib(|| v.downcast_mut::<E>()) {
        Some(mut t) => lib(|| t.as_mut_ptr()) as *mut u8,
        None => return false,
    };
    for j in len..cap {
        unsafe { std::ptr::write_bytes(base.add(j * size), SPARE_POISON[j % 4], size) };
    }
    true
}

/// Inspect the spare capacity that was poisoned after the previous step: every slot must still
/// hold its poison, fresh-storage fill, a destroyed value, or a whole element copy. Anything
/// else (guard-zone bytes, another slot's poison, torn values) shows that the library copied
/// bytes from outside the initialised elements or outside the capacity.
/// `fresh`: the storage was obtained or resized in the step just made. A library may fill storage it
/// has just obtained with whatever it likes, so any uniform slot passes there; elsewhere a slot must
/// still hold what the harness put there, or a whole (moved-out or destroyed) element.
pub fn scan_spare<E: Elem>(base: *const u8, len: usize, cap: usize, fresh: bool) -> Option<usize> {
    let size = size_of::<E>();
    if size == 0 || len > cap || cap > (1 << 22) {
        return None;
    }
    for j in len..cap {
        let p = unsafe { std::slice::from_raw_parts(base.add(j * size), size) };
        let first = p[0];
        let uniform = p.iter().all(|b| *b == first);
        // (all-zero: a library may legitimately clear storage it has just obtained)
        if uniform && (fresh || first == SPARE_POISON[j % 4] || first == POISON || first == DEAD || first == 0) {
            continue;
        }
        if unsafe { E::read_tag(p.as_ptr()) } != simcore::registry::INVALID_TAG {
            continue;
        }
        return Some(j);
    }
    None
}

pub fn put_fresh<E: Elem, Tr: ?Sized + TrSet, M: MemB>(dst: &mut AnyVec<Tr, M>, r: &RStep, cx: &mut Cx<E>) {
    let t = r.tags.first().copied().unwrap_or(0);
    match r.kind {
        SRC_WRAPPER | SRC_POOL => {
            let val = if r.kind == SRC_POOL { cx.pool.pop().expect("pool value") } else { E::make(t) };
            if r.via == VIA_TYPED {
                let mut tv = lib(|| dst.downcast_mut::<E>()).expect("LIB: typed view of the real element type");
                if r.form == 0 {
                    lib(|| tv.push(val))
                } else {
                    lib(|| tv.insert(r.i, val))
                }
            } else {
                put_value!(dst, r, AnyValueWrapper::new(val))
            }
        }
        SRC_RAW => {
            let mut own = RawOwned::new(E::make(t));
            let raw = unsafe { AnyValueRaw::new(own.ptr(), size_of::<E>(), TypeId::of::<E>()) };
            put_value!(dst, r, raw);
            own.consumed = true;
        }
        SRC_TYPELESS => {
            let mut own = RawOwned::new(E::make(t));
            let raw = unsafe { AnyValueTypelessRaw::new(own.ptr(), size_of::<E>()) };
            put_unchecked!(dst, r, raw);
            own.consumed = true;
        }
        _ => {
            let mut own = RawOwned::new(E::make(t));
            let raw = unsafe { AnyValueSizelessRaw::new(own.ptr()) };
            put_unchecked!(dst, r, raw);
            own.consumed = true;
        }
    }
}

pub fn put_handle<E: Elem, Tr: ?Sized + TrSet, M1: MemB, M2: MemB>(
    src: &mut AnyVec<Tr, M1>,
    dst: &mut AnyVec<Tr, M2>,
    r: &RStep,
    cx: &mut Cx<E>,
) {
    match r.kind {
        SRC_POP => match lib(|| src.pop()) {
            None => cx.ev.push(Ev::NoneRet),
            Some(h) => put_value!(dst, r, h),
        },
        SRC_REMOVE => {
            let h = lib(|| src.remove(r.j));
            put_value!(dst, r, h)
        }
        _ => {
            let h = lib(|| src.swap_remove(r.j));
            put_value!(dst, r, h)
        }
    }
}

/// Take ownership of the value behind a handle: by `downcast` (mode 0) or by the raw-memory form
/// of consumption, `move_into`, with the type left unknown (mode 1) or stated (mode 2).
pub fn own_value<V: AnyValue, E: Elem>(h: V, mode: u8) -> Option<E> {
    if mode % 3 == 0 {
        return lib(|| h.downcast::<E>());
    }
    let sz = lib(|| h.size());
    if sz != size_of::<E>() || lib(|| h.value_typeid()) != TypeId::of::<E>() {
        lib(|| drop(h));
        return None;
    }
    let mut slot = std::mem::MaybeUninit::<E>::uninit();
    let out = slot.as_mut_ptr() as *mut u8;
    unsafe {
        if mode % 3 == 1 {
            lib(|| h.move_into::<any_vec::any_value::Unknown>(out, sz));
        } else {
            lib(|| h.move_into::<E>(out, sz));
        }
        Some(slot.assume_init())
    }
}

/// Consume a removal handle according to the sink kind.
pub fn sink_handle<E: Elem, Tr: ?Sized + TrSet, M2: MemB, H: AnyValueMut>(
    mut h: H,
    other: Option<&mut AnyVec<Tr, M2>>,
    r: &RStep,
    cx: &mut Cx<E>,
) {
    let seen = tag_of::<H, E>(&h);
    cx.ev.push(seen);
    match r.sink {
        SINK_DROP => lib(|| drop(h)),
        SINK_DOWNCAST_KEEP => {
            let x = own_value::<H, E>(h, r.form / 2 + (r.form >= 2) as u8 * (r.i % 2) as u8).expect("LIB: downcast to the real type");
            cx.pool.push(x);
        }
        SINK_DOWNCAST_DROP => {
            let x = own_value::<H, E>(h, r.form / 2 + (r.form >= 2) as u8 * (r.i % 2) as u8).expect("LIB: downcast to the real type");
            drop(x);
        }
        SINK_DOWNCAST_WRONG => {
            if lib(|| h.downcast::<Wrong>()).is_none() {
                cx.ev.push(Ev::NoneRet);
            }
        }
        SINK_INSPECT => {
            let ok = inspect_ok::<H, E>(&h, seen);
            cx.ev.push(Ev::Bool(ok));
            lib(|| drop(h));
        }
        SINK_MOVE_PUSH => {
            let o = other.expect("other");
            lib(|| o.push(h));
        }
        SINK_MOVE_INSERT => {
            let o = other.expect("other");
            lib(|| o.insert(r.j, h));
        }
        SINK_MUTATE => {
            let new = E::make(r.tags[0]);
            match lib(|| h.downcast_mut::<E>()) {
                Some(slot) => *slot = new,
                None => drop(new),
            }
            cx.ev.push(tag_of::<H, E>(&h));
            lib(|| drop(h));
        }
        SINK_SWAP => {
            let mut w = AnyValueWrapper::new(E::make(r.tags[0]));
            if r.form % 2 == 0 {
                lib(|| h.swap(&mut w));
            } else {
                lib(|| w.swap(&mut h));
            }
            cx.ev.push(tag_of::<H, E>(&h));
            lib(|| drop(h));
            let x = lib(|| w.downcast::<E>()).expect("LIB: wrapper holds E");
            cx.pool.push(x);
        }
        _ => {
            // SINK_FORGET
            std::mem::forget(h);
        }
    }
}

pub fn take_step<E: Elem, Tr: ?Sized + TrSet, M1: MemB, M2: MemB>(
    v: &mut AnyVec<Tr, M1>,
    other: Option<&mut AnyVec<Tr, M2>>,
    r: &RStep,
    cx: &mut Cx<E>,
) {
    if r.via == VIA_TYPED {
        let mut tv = lib(|| v.downcast_mut::<E>()).expect("LIB: typed view of the real element type");
        let x = match r.kind {
            TAKE_POP => match lib(|| tv.pop()) {
                None => {
                    cx.ev.push(Ev::NoneRet);
                    return;
                }
                Some(x) => x,
            },
            TAKE_REMOVE => lib(|| tv.remove(r.i)),
            _ => lib(|| tv.swap_remove(r.i)),
        };
        cx.ev.push(val_ev(x.tag()));
        if r.sink == SINK_DOWNCAST_KEEP {
            cx.pool.push(x);
        } else {
            drop(x);
        }
        return;
    }
    if r.sink == SINK_LAZY {
        match other {
            Some(o) => Tr::take_lazy::<E, M1, M2>(v, o, r, cx),
            None => cx.ev.push(Ev::Unsupported),
        }
        return;
    }
    match r.kind {
        TAKE_POP => match lib(|| v.pop()) {
            None => cx.ev.push(Ev::NoneRet),
            Some(h) => sink_handle::<E, Tr, M2, _>(h, other, r, cx),
        },
        TAKE_REMOVE => {
            let h = lib(|| v.remove(r.i));
            sink_handle::<E, Tr, M2, _>(h, other, r, cx)
        }
        _ => {
            let h = lib(|| v.swap_remove(r.i));
            sink_handle::<E, Tr, M2, _>(h, other, r, cx)
        }
    }
}

/// Run a consumption script over an erased drain / splice iterator.
pub fn run_script<'a, E: Elem, Tr: ?Sized + TrSet, M: MemB, M2: MemB>(
    it: &mut dyn DIter<'a, Tr, M>,
    mut other: Option<&mut AnyVec<Tr, M2>>,
    r: &RStep,
    cx: &mut Cx<E>,
) {
    let mut tag_cursor = if matches!(r.kind, REPL_WRAPPER | REPL_RAW) && r.op == Op::Splice { r.n } else { 0 };
    for (pos, b) in r.script.iter().enumerate() {
        let back = b & 1 == 1;
        let sink = b >> 1;
        let item = if back { it.next_back_() } else { it.next_() };
        let mut item = match item {
            None => {
                cx.ev.push(Ev::NoneRet);
                cx.ev.push(Ev::Len(it.len_()));
                continue;
            }
            Some(x) => x,
        };
        let seen = tag_of::<_, E>(&item);
        cx.ev.push(seen);
        match sink {
            ITEM_DROP => lib(|| drop(item)),
            ITEM_KEEP => {
                // every third kept item is taken through the raw-memory form of consumption
                let x = own_value::<_, E>(item, (pos % 3) as u8).expect("LIB: downcast to the real type");
                cx.pool.push(x);
            }
            ITEM_FORGET => std::mem::forget(item),
            ITEM_INSPECT => {
                let ok = inspect_ok::<_, E>(&item, seen);
                cx.ev.push(Ev::Bool(ok));
                lib(|| drop(item));
            }
            ITEM_MUTATE => {
                // the model hands out one fresh tag per item it expects; an iterator that yields
                // more than that has already diverged (reported through the events)
                let fresh = match r.tags.get(tag_cursor) {
                    Some(t) => *t,
                    None => {
                        cx.ev.push(Ev::Bool(false));
                        lib(|| drop(item));
                        continue;
                    }
                };
                let new = E::make(fresh);
                tag_cursor += 1;
                match lib(|| item.downcast_mut::<E>()) {
                    Some(slot) => *slot = new,
                    None => drop(new),
                }
                cx.ev.push(tag_of::<_, E>(&item));
                lib(|| drop(item));
            }
            ITEM_MOVE => {
                let o = other.as_mut().expect("other");
                lib(|| o.push(item));
            }
            ITEM_MOVE_INSERT => {
                let o = other.as_mut().expect("other");
                lib(|| o.insert(0, item));
            }
            _ => {
                let o = other.as_mut().expect("other");
                Tr::item_lazy::<E, M, M2>(&item, o, cx);
                lib(|| drop(item));
            }
        }
        let (lo, hi) = it.hint_();
        let n = it.len_();
        if lo != n || hi != Some(n) {
            cx.diag.push_str("size_hint disagrees with len; ");
            cx.ev.push(Ev::Bool(false));
        }
        cx.ev.push(Ev::Len(n));
    }
}

/// Typed drain / splice script (items are `E`).
pub fn run_typed_script<E: Elem>(it: &mut dyn ElementIterator<Item = E>, r: &RStep, cx: &mut Cx<E>) {
    for b in r.script.iter() {
        let back = b & 1 == 1;
        let sink = b >> 1;
        let item = if back { lib(|| it.next_back()) } else { lib(|| it.next()) };
        match item {
            None => cx.ev.push(Ev::NoneRet),
            Some(x) => {
                cx.ev.push(val_ev(x.tag()));
                if sink == ITEM_KEEP {
                    cx.pool.push(x);
                } else {
                    drop(x);
                }
            }
        }
        let n = lib(|| it.len());
        let (lo, hi) = lib(|| it.size_hint());
        if lo != n || hi != Some(n) {
            cx.diag.push_str("size_hint disagrees with len; ");
            cx.ev.push(Ev::Bool(false));
        }
        cx.ev.push(Ev::Len(n));
    }
}

pub fn drain_step<E: Elem, Tr: ?Sized + TrSet, M1: MemB, M2: MemB>(
    v: &mut AnyVec<Tr, M1>,
    other: Option<&mut AnyVec<Tr, M2>>,
    r: &RStep,
    cx: &mut Cx<E>,
) {
    if r.via == VIA_TYPED {
        let mut tv = lib(|| v.downcast_mut::<E>()).expect("LIB: typed view of the real element type");
        let mut it: Box<dyn ElementIterator<Item = E> + '_> = with_range!(r, |rg| Box::new(lib(|| tv.drain(rg))));
        run_typed_script::<E>(&mut *it, r, cx);
        if r.sink == END_FORGET {
            std::mem::forget(it);
        } else {
            lib(|| drop(it));
        }
        return;
    }
    let mut it = with_range!(r, |rg| lib(|| v.drain(rg)));
    run_script::<E, Tr, M1, M2>(&mut it, other, r, cx);
    if r.sink == END_FORGET {
        std::mem::forget(it);
    } else {
        lib(|| drop(it));
    }
}

pub fn splice_step<E: Elem, Tr: ?Sized + TrSet, M1: MemB, M2: MemB>(
    v: &mut AnyVec<Tr, M1>,
    other: Option<&mut AnyVec<Tr, M2>>,
    r: &RStep,
    cx: &mut Cx<E>,
) {
    if r.via == VIA_TYPED {
        let vals: Vec<E> = r.tags[..r.n].iter().map(|t| E::make(*t)).collect();
        let repl = FaultIter::new(vals.into_iter(), r.next_panic_at, r.len_lie);
        let mut tv = lib(|| v.downcast_mut::<E>()).expect("LIB: typed view of the real element type");
        let mut it: Box<dyn ElementIterator<Item = E> + '_> = with_range!(r, |rg| Box::new(lib(|| tv.splice(rg, repl))));
        run_typed_script::<E>(&mut *it, r, cx);
        if r.sink == END_FORGET {
            std::mem::forget(it);
        } else {
            lib(|| drop(it));
        }
        return;
    }
    match r.kind {
        REPL_WRAPPER => {
            let vals: Vec<AnyValueWrapper<E>> = r.tags[..r.n].iter().map(|t| AnyValueWrapper::new(E::make(*t))).collect();
            let repl = FaultIter::new(vals.into_iter(), r.next_panic_at, r.len_lie);
            let mut it = with_range!(r, |rg| lib(|| v.splice(rg, repl)));
            run_script::<E, Tr, M1, M2>(&mut it, other, r, cx);
            if r.sink == END_FORGET {
                std::mem::forget(it);
            } else {
                lib(|| drop(it));
            }
        }
        REPL_RAW => {
            let batch = RawBatch::<E>::new(&r.tags[..r.n]);
            {
                let repl = FaultIter::new(batch.iter(), r.next_panic_at, r.len_lie);
                let mut it = with_range!(r, |rg| lib(|| v.splice(rg, repl)));
                run_script::<E, Tr, M1, M2>(&mut it, other, r, cx);
                if r.sink == END_FORGET {
                    std::mem::forget(it);
                } else {
                    lib(|| drop(it));
                }
            }
            drop(batch);
        }
        REPL_DRAIN => {
            let src = other.expect("other");
            let inner = lib(|| src.drain(r.j..r.j + r.n));
            let repl = FaultIter::new(inner, r.next_panic_at, r.len_lie);
            let mut it = with_range!(r, |rg| lib(|| v.splice(rg, repl)));
            run_script::<E, Tr, M1, M2>(&mut it, None, r, cx);
            if r.sink == END_FORGET {
                std::mem::forget(it);
            } else {
                lib(|| drop(it));
            }
        }
        _ => {
            let src = other.expect("other");
            Tr::splice_lazy::<E, M1, M2>(v, src, r, cx);
        }
    }
}

pub fn get_step<E: Elem, Tr: ?Sized + TrSet, M: MemB>(v: &mut AnyVec<Tr, M>, r: &RStep, cx: &mut Cx<E>) {
    if r.via == VIA_TYPED {
        let mut tv = lib(|| v.downcast_mut::<E>()).expect("LIB: typed view of the real element type");
        let got: Option<u64> = match r.kind {
            GET_GET => lib(|| tv.get(r.i)).map(|x| x.tag()),
            GET_AT => Some(lib(|| tv.at(r.i)).tag()),
            GET_GET_MUT => lib(|| tv.get_mut(r.i)).map(|x| x.tag()),
            GET_AT_MUT => Some(lib(|| tv.at_mut(r.i)).tag()),
            GET_UNCHECKED => Some(lib(|| unsafe { tv.get_unchecked(r.i) }).tag()),
            _ => Some(lib(|| unsafe { tv.get_unchecked_mut(r.i) }).tag()),
        };
        match got {
            None => cx.ev.push(Ev::NoneRet),
            Some(t) => cx.ev.push(val_ev(t)),
        }
        return;
    }
    match r.kind {
        GET_GET => match lib(|| v.get(r.i)) {
            None => cx.ev.push(Ev::NoneRet),
            Some(e) => {
                let seen = tag_of::<_, E>(&*e);
                cx.ev.push(seen);
                cx.ev.push(Ev::Bool(inspect_ok::<_, E>(&*e, seen)));
            }
        },
        GET_AT => {
            let e = lib(|| v.at(r.i));
            let seen = tag_of::<_, E>(&*e);
            cx.ev.push(seen);
            cx.ev.push(Ev::Bool(inspect_ok::<_, E>(&*e, seen)));
        }
        GET_GET_MUT => match lib(|| v.get_mut(r.i)) {
            None => cx.ev.push(Ev::NoneRet),
            Some(e) => {
                let seen = tag_of::<_, E>(&*e);
                cx.ev.push(seen);
                cx.ev.push(Ev::Bool(inspect_ok::<_, E>(&*e, seen)));
            }
        },
        GET_AT_MUT => {
            let e = lib(|| v.at_mut(r.i));
            let seen = tag_of::<_, E>(&*e);
            cx.ev.push(seen);
            cx.ev.push(Ev::Bool(inspect_ok::<_, E>(&*e, seen)));
        }
        GET_UNCHECKED => {
            let e = lib(|| unsafe { v.get_unchecked(r.i) });
            let seen = tag_of::<_, E>(&*e);
            cx.ev.push(seen);
            cx.ev.push(Ev::Bool(inspect_ok::<_, E>(&*e, seen)));
        }
        _ => {
            let e = lib(|| unsafe { v.get_unchecked_mut(r.i) });
            let seen = tag_of::<_, E>(&*e);
            cx.ev.push(seen);
            cx.ev.push(Ev::Bool(inspect_ok::<_, E>(&*e, seen)));
        }
    }
}

/// Choice-string over next / next_back / len / size_hint / clone for a shared or
/// exclusive element iterator.
pub fn iter_script<'a, E, Tr, M, I, It>(mut it: I, script: &[u8], cx: &mut Cx<E>)
where
    E: Elem,
    Tr: ?Sized + TrSet,
    M: MemB,
    I: DoubleEndedIterator<Item = It> + ExactSizeIterator + Clone,
    It: Deref<Target = Element<'a, Tr, M>>,
{
    for op in script {
        let k = (*op >> 4) as usize;
        match *op & 15 {
            ITOP_NTH => match lib(|| it.nth(k)) {
                None => cx.ev.push(Ev::NoneRet),
                Some(e) => cx.ev.push(tag_of::<_, E>(&*e)),
            },
            ITOP_NTH_BACK => match lib(|| it.nth_back(k)) {
                None => cx.ev.push(Ev::NoneRet),
                Some(e) => cx.ev.push(tag_of::<_, E>(&*e)),
            },
            ITOP_REST => {
                cx.ev.push(Ev::Len(lib(|| it.clone().count())));
                match lib(|| it.clone().last()) {
                    None => cx.ev.push(Ev::NoneRet),
                    Some(e) => cx.ev.push(tag_of::<_, E>(&*e)),
                }
                cx.ev.push(Ev::Len(lib(|| it.len())));
            }
            ITOP_NEXT => match lib(|| it.next()) {
                None => cx.ev.push(Ev::NoneRet),
                Some(e) => cx.ev.push(tag_of::<_, E>(&*e)),
            },
            ITOP_NEXT_BACK => match lib(|| it.next_back()) {
                None => cx.ev.push(Ev::NoneRet),
                Some(e) => cx.ev.push(tag_of::<_, E>(&*e)),
            },
            ITOP_LEN => cx.ev.push(Ev::Len(lib(|| it.len()))),
            ITOP_HINT => {
                let (lo, hi) = lib(|| it.size_hint());
                cx.ev.push(Ev::Len(lo));
                cx.ev.push(Ev::Len(hi.unwrap_or(usize::MAX)));
            }
            _ => {
                let mut c = lib(|| it.clone());
                match lib(|| c.next()) {
                    None => cx.ev.push(Ev::NoneRet),
                    Some(e) => cx.ev.push(tag_of::<_, E>(&*e)),
                }
                cx.ev.push(Ev::Len(lib(|| c.len())));
                cx.ev.push(Ev::Len(lib(|| it.len())));
            }
        }
    }
}

/// The typed view's iterators (slice iterators over `as_slice` / `as_mut_slice`).
fn typed_iter_script<'s, E: Elem, I>(mut it: I, script: &[u8], cx: &mut Cx<E>, clone_it: Option<&dyn Fn(&I) -> I>)
where
    I: DoubleEndedIterator + ExactSizeIterator,
    I::Item: std::ops::Deref<Target = E> + 's,
{
    for op in script {
        let k = (*op >> 4) as usize;
        match *op & 15 {
            ITOP_NTH => match it.nth(k) {
                None => cx.ev.push(Ev::NoneRet),
                Some(e) => cx.ev.push(val_ev(e.tag())),
            },
            ITOP_NTH_BACK => match it.nth_back(k) {
                None => cx.ev.push(Ev::NoneRet),
                Some(e) => cx.ev.push(val_ev(e.tag())),
            },
            ITOP_REST if clone_it.is_some() => {
                let cl = clone_it.unwrap();
                cx.ev.push(Ev::Len(cl(&it).count()));
                match cl(&it).last() {
                    None => cx.ev.push(Ev::NoneRet),
                    Some(e) => cx.ev.push(val_ev(e.tag())),
                }
                cx.ev.push(Ev::Len(it.len()));
            }
            ITOP_NEXT => match it.next() {
                None => cx.ev.push(Ev::NoneRet),
                Some(e) => cx.ev.push(val_ev(e.tag())),
            },
            ITOP_NEXT_BACK => match it.next_back() {
                None => cx.ev.push(Ev::NoneRet),
                Some(e) => cx.ev.push(val_ev(e.tag())),
            },
            ITOP_LEN => cx.ev.push(Ev::Len(it.len())),
            ITOP_HINT => {
                let (lo, hi) = it.size_hint();
                cx.ev.push(Ev::Len(lo));
                cx.ev.push(Ev::Len(hi.unwrap_or(usize::MAX)));
            }
            _ => match clone_it {
                Some(cl) => {
                    let mut c = cl(&it);
                    match c.next() {
                        None => cx.ev.push(Ev::NoneRet),
                        Some(e) => cx.ev.push(val_ev(e.tag())),
                    }
                    cx.ev.push(Ev::Len(c.len()));
                    cx.ev.push(Ev::Len(it.len()));
                }
                None => cx.ev.push(Ev::Len(it.len())),
            },
        }
    }
}

pub fn iter_step<E: Elem, Tr: ?Sized + TrSet, M: MemB>(v: &mut AnyVec<Tr, M>, r: &RStep, cx: &mut Cx<E>) {
    match r.kind {
        IT_TYPED => {
            let tv = lib(|| v.downcast_ref::<E>()).expect("LIB: typed view of the real element type");
            let it = lib(|| tv.iter());
            typed_iter_script::<E, _>(it, &r.script, cx, Some(&|i: &std::slice::Iter<'_, E>| i.clone()))
        }
        IT_TYPED_MUT => {
            let mut tv = lib(|| v.downcast_mut::<E>()).expect("LIB: typed view of the real element type");
            let it = lib(|| tv.iter_mut());
            typed_iter_script::<E, _>(it, &r.script, cx, None)
        }
        IT_ITER => {
            let it = lib(|| v.iter());
            iter_script::<E, Tr, M, _, _>(it, &r.script, cx)
        }
        IT_ITER_MUT => {
            let it = lib(|| v.iter_mut());
            iter_script::<E, Tr, M, _, _>(it, &r.script, cx)
        }
        IT_REF_INTO => {
            let it = lib(|| (&*v).into_iter());
            iter_script::<E, Tr, M, _, _>(it, &r.script, cx)
        }
        _ => {
            let it = lib(|| (&mut *v).into_iter());
            iter_script::<E, Tr, M, _, _>(it, &r.script, cx)
        }
    }
}

/// C12 on the zero-capacity `Empty` back end: every view pointer aligned, shared and mutable
/// views agree, all extents zero.
pub fn empty_views_ok<E: Elem + SatisfyTraits<Tr>, Tr: ?Sized + TrSet>() -> bool {
    use any_vec::mem::Empty;
    let a = std::mem::align_of::<E>();
    let mut v: AnyVec<Tr, Empty> = lib(|| AnyVec::new_in::<E>(Empty));
    let shared = {
        let b = lib(|| v.as_bytes());
        (b.as_ptr() as usize, b.len())
    };
    let mutable = {
        let b = lib(|| v.as_bytes_mut());
        (b.as_ptr() as usize, b.len())
    };
    let spare = {
        let b = lib(|| v.spare_bytes_mut());
        (b.as_ptr() as usize, b.len())
    };
    let tp = typed_ptr::<E, Tr, Empty>(&v) as usize;
    let (tm, tcap) = match lib(|| v.downcast_mut::<E>()) {
        Some(mut t) => (lib(|| t.as_mut_ptr()) as usize, lib(|| t.spare_capacity_mut()).len()),
        None => (1usize.wrapping_neg(), 1),
    };
    lib(|| drop(v));
    shared.0 % a == 0
        && mutable.0 % a == 0
        && spare.0 % a == 0
        && tp % a == 0
        && tm % a == 0
        && shared.1 == 0
        && mutable.1 == 0
        && spare.1 == 0
        && tcap == 0
}

/// Byte / slice view checks, then write k values into the spare capacity.
pub fn views_step<E: Elem + SatisfyTraits<Tr>, Tr: ?Sized + TrSet, M: MemB>(v: &mut AnyVec<Tr, M>, r: &RStep, cx: &mut Cx<E>) {
    let size = size_of::<E>();
    let align = std::mem::align_of::<E>();
    let len = lib(|| v.len());
    let cap = lib(|| v.capacity());
    let base = typed_ptr::<E, Tr, M>(v) as usize;
    let mut ok = true;
    let mut why = |c: bool, what: &str, diag: &mut String| {
        if !c {
            diag.push_str(what);
            diag.push_str("; ");
        }
        c
    };
    ok &= why(base % align == 0, "storage pointer misaligned", cx.diag);
    // a view that covers no bytes at all need not start at the storage - nothing says where an
    // empty slice points - but the pointer it exposes must still be aligned for the element type
    let at = |p: usize, n: usize, want: usize| if n == 0 { p % align == 0 } else { p == want };
    {
        let b = lib(|| v.as_bytes());
        ok &= why(b.len() == len * size, "as_bytes length", cx.diag);
        ok &= why(at(b.as_ptr() as usize, b.len(), base), "as_bytes start", cx.diag);
    }
    {
        let b = lib(|| v.as_bytes_mut());
        ok &= why(b.len() == len * size, "as_bytes_mut length", cx.diag);
        ok &= why(at(b.as_ptr() as usize, b.len(), base), "as_bytes_mut start", cx.diag);
    }
    if len <= cap {
        let sp = lib(|| v.spare_bytes_mut());
        ok &= why(sp.len() == (cap - len).wrapping_mul(size), "spare_bytes_mut length", cx.diag);
        ok &= why(at(sp.as_ptr() as usize, sp.len(), base + len * size), "spare_bytes_mut start", cx.diag);
        let mut tv = lib(|| v.downcast_mut::<E>()).expect("LIB: typed view of the real element type");
        let sc = lib(|| tv.spare_capacity_mut());
        ok &= why(sc.len() == cap - len, "spare_capacity_mut length", cx.diag);
        ok &= why(at(sc.as_ptr() as usize, sc.len() * size, base + len * size), "spare_capacity_mut start", cx.diag);
        let sl = lib(|| tv.as_mut_slice());
        ok &= why(sl.len() == len && at(sl.as_ptr() as usize, sl.len() * size, base), "as_mut_slice", cx.diag);
    }
    ok &= why(empty_views_ok::<E, Tr>(), "views of an Empty-backed vector (alignment / extents / shared vs mutable)", cx.diag);
    cx.ev.push(Ev::Bool(ok));
    let k = r.n;
    if k == 0 {
        return;
    }
    if r.via == VIA_TYPED {
        let mut tv = lib(|| v.downcast_mut::<E>()).expect("LIB: typed view of the real element type");
        let sc = lib(|| tv.spare_capacity_mut());
        if sc.len() < k {
            // the view is shorter than capacity - len (already reported above): nothing to write into
            cx.diag.push_str("spare_capacity_mut too short to take the new tail; ");
            return;
        }
        for (x, t) in r.tags.iter().enumerate() {
            sc[x].write(E::make(*t));
        }
        lib(|| unsafe { tv.set_len(len + k) });
    } else {
        let sp = lib(|| v.spare_bytes_mut());
        if sp.len() < k * size {
            cx.diag.push_str("spare_bytes_mut too short to take the new tail; ");
            return;
        }
        for (x, t) in r.tags.iter().enumerate() {
            let val = ManuallyDrop::new(E::make(*t));
            let src = &*val as *const E as *const u8;
            for bi in 0..size {
                sp[x * size + bi].write(unsafe { *src.add(bi) });
            }
        }
        lib(|| unsafe { v.set_len(len + k) });
    }
}

pub fn mutate_step<E: Elem, Tr: ?Sized + TrSet, M: MemB>(v: &mut AnyVec<Tr, M>, r: &RStep, cx: &mut Cx<E>) {
    let new = E::make(r.tags[0]);
    let i = r.i;
    let old: E = match r.kind {
        MUT_ELEMENT_MUT => {
            let mut e = lib(|| v.at_mut(i));
            let slot = lib(|| e.downcast_mut::<E>()).expect("LIB: element of the real type");
            std::mem::replace(slot, new)
        }
        MUT_TYPED_AT => {
            let mut tv = lib(|| v.downcast_mut::<E>()).expect("LIB: typed view of the real element type");
            std::mem::replace(lib(|| tv.at_mut(i)), new)
        }
        MUT_TYPED_SLICE => {
            let mut tv = lib(|| v.downcast_mut::<E>()).expect("LIB: typed view of the real element type");
            std::mem::replace(lib(|| tv.as_mut_slice()).get_mut(i).expect("LIB: typed slice covers the element"), new)
        }
        MUT_BYTES => {
            let size = size_of::<E>();
            let b = lib(|| v.as_bytes_mut());
            let p = b.get_mut(i * size..(i + 1) * size).expect("LIB: byte view covers the element").as_mut_ptr() as *mut E;
            unsafe { std::ptr::replace(p, new) }
        }
        MUT_ITER_MUT => {
            let mut it = lib(|| v.iter_mut());
            let mut e = lib(|| it.nth(i)).expect("LIB: i-th item");
            let slot = lib(|| e.downcast_mut::<E>()).expect("LIB: element of the real type");
            std::mem::replace(slot, new)
        }
        _ => {
            let mut tv = lib(|| v.downcast_mut::<E>()).expect("LIB: typed view of the real element type");
            let slot = lib(|| tv.iter_mut()).nth(i).expect("LIB: i-th item");
            std::mem::replace(slot, new)
        }
    };
    cx.ev.push(val_ev(old.tag()));
    drop(old);
    // read the written value back through every view
    let want = r.tags[0];
    let size = size_of::<E>();
    let mut ok = true;
    {
        let e = lib(|| v.at(i));
        ok &= tag_of::<_, E>(&*e) == Ev::Val(want);
        let b = lib(|| e.as_bytes());
        ok &= b.len() == size && unsafe { decode(b.as_ptr(), size) } == want;
    }
    {
        let e = lib(|| v.at_mut(i));
        ok &= tag_of::<_, E>(&*e) == Ev::Val(want);
    }
    {
        let b = lib(|| v.as_bytes());
        ok &= b.len() >= (i + 1) * size && unsafe { decode(b[i * size..].as_ptr(), size) } == want;
    }
    {
        let mut it = lib(|| v.iter());
        match lib(|| it.nth(i)) {
            Some(e) => ok &= tag_of::<_, E>(&*e) == Ev::Val(want),
            None => ok = false,
        }
    }
    if let Some(tv) = lib(|| v.downcast_ref::<E>()) {
        ok &= lib(|| tv.at(i)).tag() == want;
        ok &= lib(|| tv.get(i)).map(|x| x.tag()) == Some(want);
        ok &= lib(|| tv.as_slice()).get(i).map(|x| x.tag()) == Some(want);
        ok &= lib(|| tv.iter()).nth(i).map(|x| x.tag()) == Some(want);
    } else {
        ok = false;
    }
    cx.ev.push(Ev::Bool(ok));
}

pub fn swap_fresh_step<E: Elem, Tr: ?Sized + TrSet, M: MemB>(v: &mut AnyVec<Tr, M>, r: &RStep, cx: &mut Cx<E>) {
    let mut e = lib(|| v.at_mut(r.i));
    if r.kind == SWP_WRAPPER {
        let mut w = AnyValueWrapper::new(E::make(r.tags[0]));
        if r.form == 0 {
            lib(|| e.swap(&mut w));
        } else {
            lib(|| w.swap(&mut *e));
        }
        let x = lib(|| w.downcast::<E>()).expect("LIB: wrapper holds E");
        cx.ev.push(val_ev(x.tag()));
        cx.pool.push(x);
    } else {
        let mut own = RawOwned::new(E::make(r.tags[0]));
        let mut raw = unsafe { AnyValueRaw::new(own.ptr(), size_of::<E>(), TypeId::of::<E>()) };
        if r.form == 0 {
            lib(|| e.swap(&mut raw));
        } else {
            lib(|| raw.swap(&mut *e));
        }
        own.consumed = true;
        let x: E = unsafe { std::ptr::read(own.ptr().as_ptr() as *const E) };
        cx.ev.push(val_ev(x.tag()));
        cx.pool.push(x);
    }
}

pub fn swap_pair_step<E: Elem, Tr: ?Sized + TrSet, M1: MemB, M2: MemB>(
    v: &mut AnyVec<Tr, M1>,
    o: &mut AnyVec<Tr, M2>,
    r: &RStep,
    cx: &mut Cx<E>,
) {
    let mut e = lib(|| v.at_mut(r.i));
    let mine = tag_of::<_, E>(&*e);
    if r.kind == SWP_ELEMENT {
        let mut f = lib(|| o.at_mut(r.j));
        let theirs = tag_of::<_, E>(&*f);
        if r.form == 0 {
            lib(|| e.swap(&mut *f));
        } else {
            lib(|| f.swap(&mut *e));
        }
        cx.ev.push(mine);
        cx.ev.push(theirs);
    } else {
        let mut h = lib(|| o.remove(r.j));
        let theirs = tag_of::<_, E>(&h);
        if r.form == 0 {
            lib(|| e.swap(&mut h));
        } else {
            lib(|| h.swap(&mut *e));
        }
        cx.ev.push(mine);
        cx.ev.push(theirs);
        lib(|| drop(h));
    }
}

pub fn push_run<E: Elem, Tr: ?Sized + TrSet, M: MemB>(v: &mut AnyVec<Tr, M>, r: &RStep, space: u64) {
    let first = r.i as u64;
    for k in 0..r.n as u64 {
        let t = (first + k) % space;
        match r.via {
            VIA_TYPED => {
                let mut tv = lib(|| v.downcast_mut::<E>()).expect("LIB: typed view of the real element type");
                lib(|| tv.push(E::make(t)));
            }
            VIA_UNCHECKED => lib(|| unsafe { v.push_unchecked(AnyValueWrapper::new(E::make(t))) }),
            _ => lib(|| v.push(AnyValueWrapper::new(E::make(t)))),
        }
    }
}

/// C17 on the zero-capacity `Empty` back end: decompose, (clone the parts), rebuild, and use the
/// rebuilt vector as a prototype for a real one.
pub fn empty_probe<E: Elem + SatisfyTraits<Tr>, Tr: ?Sized + TrSet>(clone_parts: bool, tag: u64, ev: &mut Vec<Ev>) {
    use any_vec::mem::Empty;
    let layout = std::alloc::Layout::new::<E>();
    let v: AnyVec<Tr, Empty> = lib(|| AnyVec::new_in::<E>(Empty));
    let mut ok = lib(|| v.len()) == 0 && lib(|| v.capacity()) == 0 && lib(|| v.element_typeid()) == TypeId::of::<E>() && lib(|| v.element_layout()) == layout;
    let parts = lib(|| v.into_raw_parts());
    let parts = if clone_parts { lib(|| parts.clone()) } else { parts };
    ok &= parts.len == 0
        && parts.capacity == 0
        && parts.element_layout == layout
        && parts.element_typeid == TypeId::of::<E>()
        && parts.element_drop.is_some() == std::mem::needs_drop::<E>();
    let v2: AnyVec<Tr, Empty> = lib(|| unsafe { AnyVec::from_raw_parts(parts) });
    ok &= lib(|| v2.len()) == 0 && lib(|| v2.capacity()) == 0 && lib(|| v2.element_typeid()) == TypeId::of::<E>() && lib(|| v2.element_layout()) == layout;
    ok &= lib(|| v2.downcast_ref::<E>()).is_some() && lib(|| v2.downcast_ref::<Wrong>()).is_none();
    // the rebuilt vector still knows how to destroy (and clone) its element type
    let mut w = lib(|| v2.clone_empty_in(SimBuilder));
    lib(|| w.push(AnyValueWrapper::new(E::make(tag))));
    let s = snapshot_of::<E, Tr, SimBuilder>(&w);
    ok &= s.tags == vec![tag];
    if let Some(c) = Tr::clone_vec(&w) {
        let sc = snapshot_of::<E, Tr, SimBuilder>(&c);
        ok &= sc.tags == vec![tag];
        lib(|| drop(c));
    }
    lib(|| drop(w));
    lib(|| drop(v2));
    ev.push(Ev::Bool(ok));
}

/// C04: offer values of a wrong runtime type (a distinct type with identical layout) at every
/// checked entry point; downcast / report probes.
pub fn type_probe_step<E: Elem, Tr: ?Sized + TrSet, M: MemB>(v: &mut AnyVec<Tr, M>, r: &RStep, cx: &mut Cx<E>)
where
    Twin<E>: SatisfyTraits<Tr>,
{
    let t = r.tags.first().copied().unwrap_or(0);
    let twin_id = TypeId::of::<Twin<E>>();
    match r.kind {
        TP_PUSH_WRAPPER => lib(|| v.push(AnyValueWrapper::new(Twin(E::make(t))))),
        TP_INSERT_WRAPPER => lib(|| v.insert(r.i, AnyValueWrapper::new(Twin(E::make(t))))),
        TP_PUSH_RAW | TP_INSERT_RAW => {
            let mut own = RawOwned::new(E::make(t));
            let raw = unsafe { AnyValueRaw::new(own.ptr(), size_of::<E>(), twin_id) };
            if r.kind == TP_PUSH_RAW {
                lib(|| v.push(raw));
            } else {
                lib(|| v.insert(r.i, raw));
            }
            // only reached when the wrong type was admitted: the vector now owns the bytes
            own.consumed = true;
        }
        TP_PUSH_HANDLE => {
            // removal handle of a vector whose element type is the twin type
            let mut tw: AnyVec<Tr, SimBuilder> = lib(|| AnyVec::new_in::<Twin<E>>(SimBuilder));
            lib(|| tw.push(AnyValueWrapper::new(Twin(E::make(t)))));
            let res = catch_unwind(AssertUnwindSafe(|| {
                let h = lib(|| tw.pop()).expect("LIB: pop of a non-empty vector");
                lib(|| v.push(h));
            }));
            let left = lib(|| tw.len());
            lib(|| drop(tw));
            cx.ev.push(Ev::Len(left));
            if let Err(p) = res {
                std::panic::resume_unwind(p);
            }
        }
        TP_PUSH_LAZY => {
            // lazy clone of an element of a twin-typed vector (only reached in Cloneable worlds)
            let mut tw: AnyVec<Tr, SimBuilder> = lib(|| AnyVec::new_in::<Twin<E>>(SimBuilder));
            lib(|| tw.push(AnyValueWrapper::new(Twin(E::make(t)))));
            let res = catch_unwind(AssertUnwindSafe(|| Tr::push_lazy_of_first::<SimBuilder, M>(&tw, v)));
            let left = lib(|| tw.len());
            lib(|| drop(tw));
            cx.ev.push(Ev::Len(left));
            if let Err(p) = res {
                std::panic::resume_unwind(p);
            }
        }
        TP_SPLICE => {
            // n raw items, the one at position j lies about nothing: it really is of the twin type
            let batch = RawBatch::<E>::new(&r.tags[..r.n]);
            {
                let j = r.j;
                let items = batch.iter().enumerate().map(move |(k, raw)| {
                    if k == j {
                        unsafe { AnyValueRaw::new(NonNull::new_unchecked(raw.as_bytes_ptr() as *mut u8), size_of::<E>(), twin_id) }
                    } else {
                        raw
                    }
                });
                let it = with_range!(r, |rg| lib(|| v.splice(rg, items)));
                lib(|| drop(it));
            }
            drop(batch);
        }
        TP_SWAP => {
            let mut w = AnyValueWrapper::new(Twin(E::make(t)));
            let mut e = lib(|| v.at_mut(r.i));
            if r.form == 0 {
                lib(|| e.swap(&mut w));
            } else {
                lib(|| w.swap(&mut *e));
            }
        }
        _ => {
            // downcasts and reports
            let mut ok = true;
            ok &= lib(|| v.downcast_ref::<Twin<E>>()).is_none();
            ok &= lib(|| v.downcast_mut::<Twin<E>>()).is_none();
            ok &= lib(|| v.downcast_ref::<Wrong>()).is_none();
            ok &= lib(|| v.downcast_ref::<E>()).is_some();
            ok &= lib(|| v.downcast_mut::<E>()).is_some();
            ok &= lib(|| v.element_typeid()) == TypeId::of::<E>();
            ok &= lib(|| v.element_layout()) == std::alloc::Layout::new::<E>();
            if lib(|| v.len()) > 0 {
                let i = r.i;
                {
                    let e = lib(|| v.at(i));
                    ok &= lib(|| e.downcast_ref::<Twin<E>>()).is_none();
                    ok &= lib(|| e.downcast_ref::<E>()).is_some();
                    ok &= lib(|| AnyValue::downcast_ref::<Twin<E>>(&*e)).is_none();
                    ok &= lib(|| AnyValue::downcast_ref::<E>(&*e)).is_some();
                    ok &= lib(|| e.value_typeid()) == TypeId::of::<E>() && lib(|| e.size()) == size_of::<E>();
                }
                {
                    let mut e = lib(|| v.at_mut(i));
                    ok &= lib(|| e.downcast_mut::<Twin<E>>()).is_none();
                    ok &= lib(|| e.downcast_mut::<E>()).is_some();
                    ok &= lib(|| AnyValueMut::downcast_mut::<Twin<E>>(&mut *e)).is_none();
                    ok &= lib(|| AnyValueMut::downcast_mut::<E>(&mut *e)).is_some();
                }
                {
                    // removal handle: wrong-type borrows fail, the handle stays usable and is put back
                    let mut h = lib(|| v.remove(i));
                    ok &= lib(|| h.downcast_ref::<Twin<E>>()).is_none();
                    ok &= lib(|| h.downcast_mut::<Twin<E>>()).is_none();
                    ok &= lib(|| h.downcast_ref::<E>()).is_some();
                    ok &= lib(|| h.value_typeid()) == TypeId::of::<E>() && lib(|| h.size()) == size_of::<E>();
                    let x = lib(|| h.downcast::<E>()).expect("LIB: downcast to the real type");
                    lib(|| v.insert(i, AnyValueWrapper::new(x)));
                }
                {
                    let mut d = lib(|| v.drain(i..i + 1));
                    let item = lib(|| d.next()).expect("LIB: one drained element");
                    ok &= lib(|| item.downcast_ref::<Twin<E>>()).is_none();
                    ok &= lib(|| item.downcast_ref::<E>()).is_some();
                    ok &= lib(|| item.value_typeid()) == TypeId::of::<E>();
                    let x = lib(|| item.downcast::<E>()).expect("LIB: downcast to the real type");
                    lib(|| drop(d));
                    lib(|| v.insert(i, AnyValueWrapper::new(x)));
                }
            }
            {
                // the crate's own value types
                let w = AnyValueWrapper::new(E::make(t));
                ok &= lib(|| w.downcast_ref::<Twin<E>>()).is_none() && lib(|| w.downcast_ref::<E>()).is_some();
                ok &= lib(|| w.value_typeid()) == TypeId::of::<E>() && lib(|| w.size()) == size_of::<E>();
                ok &= lib(|| w.downcast::<Twin<E>>()).is_none();
                let mut own = RawOwned::new(E::make(t));
                let raw = unsafe { AnyValueRaw::new(own.ptr(), size_of::<E>(), TypeId::of::<E>()) };
                ok &= lib(|| raw.downcast_ref::<Twin<E>>()).is_none() && lib(|| raw.downcast_ref::<E>()).is_some();
            }
            cx.ev.push(Ev::Bool(ok));
        }
    }
}

// -------------------------------------------------------------------------------------------
// the world
// -------------------------------------------------------------------------------------------

pub struct World<E: Elem + SatisfyTraits<Tr>, Tr: ?Sized + TrSet, MA: Backend, MB: Backend>
where
    Twin<E>: SatisfyTraits<Tr>,
{
    id: u32,
    a0: Option<Placed<AnyVec<Tr, MA>>>,
    a1: Option<Placed<AnyVec<Tr, MA>>>,
    b: Option<Placed<AnyVec<Tr, MB>>>,
    pool: Vec<E>,
    diag: String,
    /// slots whose inline storage was observed misaligned: never touched through typed code again
    bad: [bool; 3],
    /// spare capacity of the slot was poisoned by the harness and the vector instance is unchanged since
    scan_ready: [bool; 3],
    /// (storage address, capacity) of each slot when its spare capacity was last poisoned
    last_store: [(usize, usize); 3],
    free_place: bool,
    poison: bool,
    _m: PhantomData<E>,
}

fn fix_align<E: Elem, Tr: ?Sized + TrSet, M: Backend>(p: &mut Placed<AnyVec<Tr, M>>, raw: usize, free: bool) {
    if free || !M::info().on_stack() || std::mem::align_of::<E>() <= 1 {
        return;
    }
    // inline storage is only as aligned as the object: pick an offset where it is aligned
    // (the unconstrained sweep belongs to C12 alone)
    let n = Placed::<AnyVec<Tr, M>>::offsets();
    for k in 0..n {
        let ptr = typed_ptr::<E, Tr, M>(p.get_ref()) as usize;
        if ptr % std::mem::align_of::<E>() == 0 {
            return;
        }
        p.move_to(raw + k + 1);
    }
}

fn new_vec<E: Elem + SatisfyTraits<Tr>, Tr: ?Sized + TrSet, M: Backend>(form: u8, n: usize, raw: usize, free: bool) -> Placed<AnyVec<Tr, M>> {
    let v: AnyVec<Tr, M> = if form == 1 { M::with_capacity::<Tr, E>(n) } else { lib(|| AnyVec::<Tr, M>::new_in::<E>(M::builder())) };
    let mut p = Placed::new(v, raw);
    fix_align::<E, Tr, M>(&mut p, raw, free);
    p
}

macro_rules! on_slot {
    ($self:ident, $slot:expr, |$v:ident, $pool:ident, $diag:ident| $body:expr) => {{
        let World { a0, a1, b, pool: $pool, diag: $diag, .. } = $self;
        match $slot {
            0 => {
                if let Some(p) = a0.as_mut() {
                    let $v = p.get();
                    $body
                }
            }
            1 => {
                if let Some(p) = a1.as_mut() {
                    let $v = p.get();
                    $body
                }
            }
            _ => {
                if let Some(p) = b.as_mut() {
                    let $v = p.get();
                    $body
                }
            }
        }
    }};
}

/// `$body` sees `$v` (slot) and `$o` (other, a different slot) as `&mut AnyVec`.
macro_rules! on_pair {
    ($self:ident, $slot:expr, $other:expr, |$v:ident, $o:ident, $pool:ident, $diag:ident| $body:expr) => {{
        let World { a0, a1, b, pool: $pool, diag: $diag, .. } = $self;
        match ($slot, $other) {
            (0, 1) => {
                if let (Some(p), Some(q)) = (a0.as_mut(), a1.as_mut()) {
                    let ($v, $o) = (p.get(), q.get());
                    $body
                }
            }
            (1, 0) => {
                if let (Some(p), Some(q)) = (a1.as_mut(), a0.as_mut()) {
                    let ($v, $o) = (p.get(), q.get());
                    $body
                }
            }
            (0, 2) => {
                if let (Some(p), Some(q)) = (a0.as_mut(), b.as_mut()) {
                    let ($v, $o) = (p.get(), q.get());
                    $body
                }
            }
            (1, 2) => {
                if let (Some(p), Some(q)) = (a1.as_mut(), b.as_mut()) {
                    let ($v, $o) = (p.get(), q.get());
                    $body
                }
            }
            (2, 0) => {
                if let (Some(p), Some(q)) = (b.as_mut(), a0.as_mut()) {
                    let ($v, $o) = (p.get(), q.get());
                    $body
                }
            }
            (2, 1) => {
                if let (Some(p), Some(q)) = (b.as_mut(), a1.as_mut()) {
                    let ($v, $o) = (p.get(), q.get());
                    $body
                }
            }
            _ => {}
        }
    }};
}

fn kill<T>(o: &mut Option<T>) {
    let x = o.take();
    drop(x);
}

impl<E: Elem + SatisfyTraits<Tr>, Tr: ?Sized + TrSet, MA: Backend, MB: Backend> World<E, Tr, MA, MB>
where
    Twin<E>: SatisfyTraits<Tr>,
{
    pub fn new(id: u32) -> Self {
        World { id, a0: None, a1: None, b: None, pool: Vec::new(), diag: String::new(), bad: [false; 3], scan_ready: [false; 3], last_store: [(0, 0); 3], free_place: false, poison: true, _m: PhantomData }
    }

    fn exec_inner(&mut self, r: &RStep, ev: &mut Vec<Ev>) {
        let free = self.free_place;
        let space = E::TAG_MOD.min(simcore::model::TAG_SPACE_MAX as u64);
        match r.op {
            Op::Nop => {}
            Op::TypeProbe => on_slot!(self, r.slot, |v, pool, diag| type_probe_step::<E, Tr, _>(v, r, &mut Cx { ev: &mut *ev, pool, diag })),
            Op::New => match r.slot {
                0 => {
                    kill(&mut self.a0);
                    self.a0 = Some(new_vec::<E, Tr, MA>(r.form, r.n, r.i, free));
                }
                1 => {
                    kill(&mut self.a1);
                    self.a1 = Some(new_vec::<E, Tr, MA>(r.form, r.n, r.i, free));
                }
                _ => {
                    kill(&mut self.b);
                    self.b = Some(new_vec::<E, Tr, MB>(r.form, r.n, r.i, free));
                }
            },
            Op::DropVec => match r.slot {
                0 => kill(&mut self.a0),
                1 => kill(&mut self.a1),
                _ => kill(&mut self.b),
            },
            Op::MoveVec => match r.slot {
                0 => {
                    if let Some(p) = self.a0.as_mut() {
                        p.move_to(r.i);
                        fix_align::<E, Tr, MA>(p, r.i, free);
                    }
                }
                1 => {
                    if let Some(p) = self.a1.as_mut() {
                        p.move_to(r.i);
                        fix_align::<E, Tr, MA>(p, r.i, free);
                    }
                }
                _ => {
                    if let Some(p) = self.b.as_mut() {
                        p.move_to(r.i);
                        fix_align::<E, Tr, MB>(p, r.i, free);
                    }
                }
            },
            Op::Put => {
                let from_other = matches!(
                    r.kind,
                    SRC_POP | SRC_REMOVE | SRC_SWAP_REMOVE | SRC_LAZY_REF | SRC_LAZY_MUT | SRC_LAZY_HANDLE | SRC_LAZY_LAZY
                );
                if !from_other {
                    on_slot!(self, r.slot, |v, pool, diag| put_fresh::<E, Tr, _>(v, r, &mut Cx { ev: &mut *ev, pool, diag }));
                } else if matches!(r.kind, SRC_POP | SRC_REMOVE | SRC_SWAP_REMOVE) {
                    on_pair!(self, r.slot, r.other, |dst, src, pool, diag| put_handle::<E, Tr, _, _>(
                        src,
                        dst,
                        r,
                        &mut Cx { ev: &mut *ev, pool, diag }
                    ));
                } else {
                    on_pair!(self, r.slot, r.other, |dst, src, pool, diag| Tr::put_lazy::<E, _, _>(
                        src,
                        dst,
                        r,
                        &mut Cx { ev: &mut *ev, pool, diag }
                    ));
                }
            }
            Op::Take => {
                if matches!(r.sink, SINK_MOVE_PUSH | SINK_MOVE_INSERT | SINK_LAZY) && r.via != VIA_TYPED {
                    on_pair!(self, r.slot, r.other, |v, o, pool, diag| take_step::<E, Tr, _, _>(
                        v,
                        Some(o),
                        r,
                        &mut Cx { ev: &mut *ev, pool, diag }
                    ));
                } else {
                    on_slot!(self, r.slot, |v, pool, diag| take_step::<E, Tr, _, MA>(v, None, r, &mut Cx { ev: &mut *ev, pool, diag }));
                }
            }
            Op::Clear => {
                on_slot!(self, r.slot, |v, _pool, _diag| {
                    if r.via == VIA_TYPED {
                        let mut tv = lib(|| v.downcast_mut::<E>()).expect("LIB: typed view of the real element type");
                        lib(|| tv.clear());
                    } else {
                        lib(|| v.clear());
                    }
                });
            }
            Op::Drain | Op::Splice => {
                let needs_other = r.other != r.slot
                    && (r.script.iter().any(|b| matches!(b >> 1, ITEM_MOVE | ITEM_LAZY | ITEM_MOVE_INSERT))
                        || (r.op == Op::Splice && r.via != VIA_TYPED && matches!(r.kind, REPL_LAZY | REPL_DRAIN)));
                if needs_other {
                    if r.op == Op::Drain {
                        on_pair!(self, r.slot, r.other, |v, o, pool, diag| drain_step::<E, Tr, _, _>(
                            v,
                            Some(o),
                            r,
                            &mut Cx { ev: &mut *ev, pool, diag }
                        ));
                    } else {
                        on_pair!(self, r.slot, r.other, |v, o, pool, diag| splice_step::<E, Tr, _, _>(
                            v,
                            Some(o),
                            r,
                            &mut Cx { ev: &mut *ev, pool, diag }
                        ));
                    }
                } else if r.op == Op::Drain {
                    on_slot!(self, r.slot, |v, pool, diag| drain_step::<E, Tr, _, MA>(v, None, r, &mut Cx { ev: &mut *ev, pool, diag }));
                } else {
                    on_slot!(self, r.slot, |v, pool, diag| splice_step::<E, Tr, _, MA>(v, None, r, &mut Cx { ev: &mut *ev, pool, diag }));
                }
            }
            Op::Get => on_slot!(self, r.slot, |v, pool, diag| get_step::<E, Tr, _>(v, r, &mut Cx { ev: &mut *ev, pool, diag })),
            Op::Iter => on_slot!(self, r.slot, |v, pool, diag| iter_step::<E, Tr, _>(v, r, &mut Cx { ev: &mut *ev, pool, diag })),
            Op::Views => on_slot!(self, r.slot, |v, pool, diag| views_step::<E, Tr, _>(v, r, &mut Cx { ev: &mut *ev, pool, diag })),
            Op::Mutate => on_slot!(self, r.slot, |v, pool, diag| mutate_step::<E, Tr, _>(v, r, &mut Cx { ev: &mut *ev, pool, diag })),
            Op::PushRun => on_slot!(self, r.slot, |v, _pool, _diag| push_run::<E, Tr, _>(v, r, space)),
            Op::Cap => match r.slot {
                0 | 1 => {
                    let p = if r.slot == 0 { self.a0.as_mut() } else { self.a1.as_mut() };
                    if let Some(p) = p {
                        if !MA::cap_op::<Tr, E>(p.get(), r.kind, r.n, r.via) {
                            ev.push(Ev::Unsupported);
                        }
                    }
                }
                _ => {
                    if let Some(p) = self.b.as_mut() {
                        if !MB::cap_op::<Tr, E>(p.get(), r.kind, r.n, r.via) {
                            ev.push(Ev::Unsupported);
                        }
                    }
                }
            },
            Op::RawTrip if r.form >= 2 => empty_probe::<E, Tr>(r.form == 3, r.tags.first().copied().unwrap_or(0), ev),
            Op::RawTrip => match r.slot {
                0 => {
                    if let Some(p) = self.a0.take() {
                        let off = p.offset();
                        let v = p.take();
                        let (cf, df) = (Tr::clone_fn_addr(&v), lib(|| v.element_drop()).map(|f| f as usize));
                        let v = MA::raw_trip::<Tr, E>(v, r.form == 1, cf, ev);
                        ev.push(Ev::Bool(Tr::clone_fn_addr(&v) == cf && lib(|| v.element_drop()).map(|f| f as usize) == df));
                        self.a0 = Some(Placed::new(v, off / std::mem::align_of::<AnyVec<Tr, MA>>()));
                    }
                }
                1 => {
                    if let Some(p) = self.a1.take() {
                        let off = p.offset();
                        let v = p.take();
                        let (cf, df) = (Tr::clone_fn_addr(&v), lib(|| v.element_drop()).map(|f| f as usize));
                        let v = MA::raw_trip::<Tr, E>(v, r.form == 1, cf, ev);
                        ev.push(Ev::Bool(Tr::clone_fn_addr(&v) == cf && lib(|| v.element_drop()).map(|f| f as usize) == df));
                        self.a1 = Some(Placed::new(v, off / std::mem::align_of::<AnyVec<Tr, MA>>()));
                    }
                }
                _ => {
                    if let Some(p) = self.b.take() {
                        let off = p.offset();
                        let v = p.take();
                        let (cf, df) = (Tr::clone_fn_addr(&v), lib(|| v.element_drop()).map(|f| f as usize));
                        let v = MB::raw_trip::<Tr, E>(v, r.form == 1, cf, ev);
                        ev.push(Ev::Bool(Tr::clone_fn_addr(&v) == cf && lib(|| v.element_drop()).map(|f| f as usize) == df));
                        self.b = Some(Placed::new(v, off / std::mem::align_of::<AnyVec<Tr, MB>>()));
                    }
                }
            },
            Op::Swap => {
                if matches!(r.kind, SWP_WRAPPER | SWP_RAW) {
                    on_slot!(self, r.slot, |v, pool, diag| swap_fresh_step::<E, Tr, _>(v, r, &mut Cx { ev: &mut *ev, pool, diag }));
                } else {
                    on_pair!(self, r.slot, r.other, |v, o, pool, diag| swap_pair_step::<E, Tr, _, _>(
                        v,
                        o,
                        r,
                        &mut Cx { ev: &mut *ev, pool, diag }
                    ));
                }
            }
            Op::Lazy => {
                on_pair!(self, r.slot, r.other, |v, o, pool, diag| Tr::lazy_op::<E, _, _>(v, o, r, &mut Cx { ev: &mut *ev, pool, diag }));
            }
            Op::CloneVec => self.clone_vec(r, ev),
            Op::CloneEmpty => self.clone_empty(r, ev),
            Op::CloneEmptyIn => self.clone_empty_in(r, ev),
        }
    }

    fn emit_contents<M: MemB>(c: &AnyVec<Tr, M>, ev: &mut Vec<Ev>) {
        let s = snapshot_of::<E, Tr, M>(c);
        ev.push(Ev::Len(s.len));
        for t in s.tags {
            ev.push(val_ev(t));
        }
    }

    fn clone_vec(&mut self, r: &RStep, ev: &mut Vec<Ev>) {
        let free = self.free_place;
        match r.slot {
            0 | 1 => {
                let src = if r.slot == 0 { self.a0.as_ref() } else { self.a1.as_ref() };
                let src = match src {
                    Some(p) => p,
                    None => return,
                };
                let c = match Tr::clone_vec(src.get_ref()) {
                    Some(c) => c,
                    None => {
                        ev.push(Ev::Unsupported);
                        return;
                    }
                };
                Self::emit_contents(&c, ev);
                let mut p = Placed::new(c, r.i);
                fix_align::<E, Tr, MA>(&mut p, r.i, free);
                if r.slot == 0 {
                    kill(&mut self.a1);
                    self.a1 = Some(p);
                } else {
                    kill(&mut self.a0);
                    self.a0 = Some(p);
                }
            }
            _ => {
                let src = match self.b.as_ref() {
                    Some(p) => p,
                    None => return,
                };
                let c = match Tr::clone_vec(src.get_ref()) {
                    Some(c) => c,
                    None => {
                        ev.push(Ev::Unsupported);
                        return;
                    }
                };
                let mut p = Placed::new(c, r.i);
                fix_align::<E, Tr, MB>(&mut p, r.i, free);
                Self::emit_contents(p.get_ref(), ev);
                drop(p);
            }
        }
    }

    fn check_empty_clone<M: MemB>(c: &AnyVec<Tr, M>, ev: &mut Vec<Ev>) {
        ev.push(Ev::Len(lib(|| c.len())));
        let ok = lib(|| c.element_typeid()) == TypeId::of::<E>()
            && lib(|| c.element_layout()) == std::alloc::Layout::new::<E>()
            && lib(|| c.is_empty())
            && lib(|| c.element_drop()).is_some() == std::mem::needs_drop::<E>();
        ev.push(Ev::Bool(ok));
    }

    fn clone_empty(&mut self, r: &RStep, ev: &mut Vec<Ev>) {
        let free = self.free_place;
        match r.slot {
            0 | 1 => {
                let src = if r.slot == 0 { self.a0.as_ref() } else { self.a1.as_ref() };
                let src = match src {
                    Some(p) => p,
                    None => return,
                };
                let c = lib(|| src.get_ref().clone_empty());
                Self::check_empty_clone(&c, ev);
                let mut p = Placed::new(c, r.i);
                fix_align::<E, Tr, MA>(&mut p, r.i, free);
                if r.slot == 0 {
                    kill(&mut self.a1);
                    self.a1 = Some(p);
                } else {
                    kill(&mut self.a0);
                    self.a0 = Some(p);
                }
            }
            _ => {
                if let Some(src) = self.b.as_ref() {
                    let c = lib(|| src.get_ref().clone_empty());
                    Self::check_empty_clone(&c, ev);
                    lib(|| drop(c));
                }
            }
        }
    }

    fn clone_empty_in(&mut self, r: &RStep, ev: &mut Vec<Ev>) {
        let free = self.free_place;
        match r.slot {
            0 | 1 => {
                let src = if r.slot == 0 { self.a0.as_ref() } else { self.a1.as_ref() };
                let src = match src {
                    Some(p) => p,
                    None => return,
                };
                let c = lib(|| src.get_ref().clone_empty_in(MB::builder()));
                Self::check_empty_clone(&c, ev);
                let mut p = Placed::new(c, r.i);
                fix_align::<E, Tr, MB>(&mut p, r.i, free);
                kill(&mut self.b);
                self.b = Some(p);
            }
            _ => {
                let src = match self.b.as_ref() {
                    Some(p) => p,
                    None => return,
                };
                let c = lib(|| src.get_ref().clone_empty_in(MA::builder()));
                Self::check_empty_clone(&c, ev);
                let mut p = Placed::new(c, r.i);
                fix_align::<E, Tr, MA>(&mut p, r.i, free);
                if r.other == 0 {
                    kill(&mut self.a0);
                    self.a0 = Some(p);
                } else {
                    kill(&mut self.a1);
                    self.a1 = Some(p);
                }
            }
        }
    }
}

impl<E: Elem + SatisfyTraits<Tr>, Tr: ?Sized + TrSet, MA: Backend, MB: Backend> WorldOps for World<E, Tr, MA, MB>
where
    Twin<E>: SatisfyTraits<Tr>,
{
    fn info(&self) -> WorldInfo {
        WorldInfo {
            id: self.id,
            elem: E::NAME,
            size: size_of::<E>(),
            align: std::mem::align_of::<E>(),
            has_drop: E::HAS_DROP,
            tag_mod: E::TAG_MOD,
            cloneable: Tr::CLONEABLE,
            traits: Tr::NAME,
            be: [MA::info(), MB::info()],
        }
    }
    fn configure(&mut self, free_place: bool, poison_spare: bool) {
        self.free_place = free_place;
        self.poison = poison_spare;
    }
    fn reset(&mut self, place: [u8; 3]) {
        self.teardown();
        let free = self.free_place;
        // constructing an empty vector must not panic; if it does the slot stays empty and the
        // executor reports it
        let _step = simcore::registry::enter_step();
        if let Ok(v) = catch_unwind(|| new_vec::<E, Tr, MA>(0, 0, place[0] as usize, free)) {
            self.a0 = Some(v);
        }
        if let Ok(v) = catch_unwind(|| new_vec::<E, Tr, MA>(0, 0, place[1] as usize, free)) {
            self.a1 = Some(v);
        }
        if let Ok(v) = catch_unwind(|| new_vec::<E, Tr, MB>(0, 0, place[2] as usize, free)) {
            self.b = Some(v);
        }
        let _ = simcore::registry::take_harness_panic();
    }
    fn exec(&mut self, r: &RStep) -> Vec<Ev> {
        let mut ev: Vec<Ev> = Vec::with_capacity(8);
        self.diag.clear();
        match r.op {
            Op::New | Op::DropVec | Op::RawTrip => self.scan_ready[r.slot] = false,
            Op::CloneVec | Op::CloneEmpty | Op::CloneEmptyIn => {
                self.scan_ready = [false; 3];
            }
            _ => {}
        }
        let res = {
            let _step = simcore::registry::enter_step();
            catch_unwind(AssertUnwindSafe(|| self.exec_inner(r, &mut ev)))
        };
        if let Err(payload) = res {
            ev.push(Ev::Panic);
            harness(|| drop(payload));
            if let Some(msg) = simcore::registry::take_harness_panic() {
                self.diag.push_str("HARNESS PANIC: ");
                self.diag.push_str(&msg);
                ev.push(Ev::Unsupported);
            }
        }
        ev
    }
    fn snapshot(&mut self, slot: usize) -> Snap {
        let poison = self.poison;
        match slot {
            0 => match self.a0.as_mut() {
                None => Snap::default(),
                Some(p) => {
                    let mut s = snapshot_of::<E, Tr, MA>(p.get_ref());
                    s.object_guards_ok = p.guards_ok();
                    if !s.aligned {
                        self.bad[slot] = true;
                    } else if poison {
                        if self.scan_ready[slot] && s.len_le_cap && s.storage_addr != 0 {
                            s.spare_bad = scan_spare::<E>(s.storage_addr as *const u8, s.len, s.cap, self.last_store[slot] != (s.storage_addr, s.cap));
                        }
                        self.scan_ready[slot] = poison_spare::<E, Tr, MA>(p.get());
                        self.last_store[slot] = (s.storage_addr, s.cap);
                    }
                    s
                }
            },
            1 => match self.a1.as_mut() {
                None => Snap::default(),
                Some(p) => {
                    let mut s = snapshot_of::<E, Tr, MA>(p.get_ref());
                    s.object_guards_ok = p.guards_ok();
                    if !s.aligned {
                        self.bad[slot] = true;
                    } else if poison {
                        if self.scan_ready[slot] && s.len_le_cap && s.storage_addr != 0 {
                            s.spare_bad = scan_spare::<E>(s.storage_addr as *const u8, s.len, s.cap, self.last_store[slot] != (s.storage_addr, s.cap));
                        }
                        self.scan_ready[slot] = poison_spare::<E, Tr, MA>(p.get());
                        self.last_store[slot] = (s.storage_addr, s.cap);
                    }
                    s
                }
            },
            _ => match self.b.as_mut() {
                None => Snap::default(),
                Some(p) => {
                    let mut s = snapshot_of::<E, Tr, MB>(p.get_ref());
                    s.object_guards_ok = p.guards_ok();
                    if !s.aligned {
                        self.bad[slot] = true;
                    } else if poison {
                        if self.scan_ready[slot] && s.len_le_cap && s.storage_addr != 0 {
                            s.spare_bad = scan_spare::<E>(s.storage_addr as *const u8, s.len, s.cap, self.last_store[slot] != (s.storage_addr, s.cap));
                        }
                        self.scan_ready[slot] = poison_spare::<E, Tr, MB>(p.get());
                        self.last_store[slot] = (s.storage_addr, s.cap);
                    }
                    s
                }
            },
        }
    }
    fn realign(&mut self, slot: usize) {
        match slot {
            0 => {
                if let Some(p) = self.a0.as_mut() {
                    fix_align::<E, Tr, MA>(p, 0, false);
                }
            }
            1 => {
                if let Some(p) = self.a1.as_mut() {
                    fix_align::<E, Tr, MA>(p, 0, false);
                }
            }
            _ => {
                if let Some(p) = self.b.as_mut() {
                    fix_align::<E, Tr, MB>(p, 0, false);
                }
            }
        }
        self.bad[slot] = false;
        self.scan_ready[slot] = false;
    }
    fn pool_tags(&self) -> Vec<u64> {
        self.pool.iter().map(|x| x.tag()).collect()
    }
    fn take_diag(&mut self) -> String {
        std::mem::take(&mut self.diag)
    }
    fn teardown(&mut self) -> bool {
        // vectors whose storage is misaligned are leaked, not dropped (see `bad`)
        if self.bad[0] {
            std::mem::forget(self.a0.take());
        }
        if self.bad[1] {
            std::mem::forget(self.a1.take());
        }
        if self.bad[2] {
            std::mem::forget(self.b.take());
        }
        self.bad = [false; 3];
        self.scan_ready = [false; 3];
        let r = catch_unwind(AssertUnwindSafe(|| {
            kill(&mut self.a0);
            kill(&mut self.a1);
            kill(&mut self.b);
        }));
        // a panic while dropping one vector must not keep the others alive
        let r2 = catch_unwind(AssertUnwindSafe(|| {
            kill(&mut self.a0);
            kill(&mut self.a1);
            kill(&mut self.b);
        }));
        let r3 = catch_unwind(AssertUnwindSafe(|| {
            kill(&mut self.a0);
            kill(&mut self.a1);
            kill(&mut self.b);
        }));
        harness(|| self.pool.clear());
        r.is_ok() && r2.is_ok() && r3.is_ok()
    }
}
