//! Simulated element types ("user code"): one distinct Rust type per layout
//! class. Every byte of a value is a function of its identity tag, so torn,
//! partially copied, wrong-stride, poison-filled or already-destroyed values
//! are recognisable. Types with drop glue report to the registry and scribble
//! a "dead" pattern over themselves when destroyed.

use simcore::registry::{self, INVALID_TAG};

pub const DEAD_BYTE: u8 = 0xFE;
pub const BIG_TAG_SPACE: u64 = 1 << 17;

#[inline]
fn check_byte(tag: u64, i: usize) -> u8 {
    ((tag.wrapping_mul(0x9E37_79B9_7F4A_7C15) >> ((i % 7) * 8)) as u8) ^ (i as u8).wrapping_mul(31) ^ 0xA7
}

pub const fn tag_mod(size: usize) -> u64 {
    match size {
        0 => 1,
        1 => 247,
        2..=7 => 63000,
        _ => BIG_TAG_SPACE,
    }
}

/// Write the canonical bytes of `tag` for a value of `size` bytes.
#[inline]
pub fn encode(tag: u64, out: &mut [u8]) {
    let size = out.len();
    match size {
        0 => {}
        1 => out[0] = tag as u8,
        2..=7 => {
            out[0] = tag as u8;
            out[1] = (tag >> 8) as u8;
            for i in 2..size {
                out[i] = check_byte(tag, i);
            }
        }
        _ => {
            out[..8].copy_from_slice(&tag.to_le_bytes());
            for i in 8..size {
                out[i] = check_byte(tag, i);
            }
        }
    }
}

/// Decode `size` bytes at `p` (any alignment). INVALID_TAG when they are not the
/// canonical bytes of a tag.
#[inline]
pub unsafe fn decode(p: *const u8, size: usize) -> u64 {
    match size {
        0 => 0,
        1 => {
            let b = *p;
            if (b as u64) < 247 {
                b as u64
            } else {
                INVALID_TAG
            }
        }
        2..=7 => {
            let tag = (*p as u64) | ((*p.add(1) as u64) << 8);
            if tag >= 63000 {
                return INVALID_TAG;
            }
            for i in 2..size {
                if *p.add(i) != check_byte(tag, i) {
                    return INVALID_TAG;
                }
            }
            tag
        }
        _ => {
            let mut t = [0u8; 8];
            std::ptr::copy_nonoverlapping(p, t.as_mut_ptr(), 8);
            let tag = u64::from_le_bytes(t);
            if tag >= BIG_TAG_SPACE {
                return INVALID_TAG;
            }
            for i in 8..size {
                if *p.add(i) != check_byte(tag, i) {
                    return INVALID_TAG;
                }
            }
            tag
        }
    }
}

pub trait Elem: 'static + Clone + Send + Sync + Sized {
    const NAME: &'static str;
    const HAS_DROP: bool;
    const TAG_MOD: u64 = tag_mod(std::mem::size_of::<Self>());
    /// Create the value with identity `tag` (registers it when the type has drop glue).
    fn make(tag: u64) -> Self;
    /// Decode without touching the registry.
    #[inline]
    unsafe fn read_tag(p: *const u8) -> u64 {
        decode(p, std::mem::size_of::<Self>())
    }
    #[inline]
    fn tag(&self) -> u64 {
        unsafe { Self::read_tag(self as *const Self as *const u8) }
    }
}

macro_rules! elem_common {
    ($name:ident, $size:expr, $align:literal, $has_drop:expr) => {
        #[repr(C, align($align))]
        pub struct $name {
            b: [u8; $size],
        }
        impl Elem for $name {
            const NAME: &'static str = stringify!($name);
            const HAS_DROP: bool = $has_drop;
            #[inline]
            fn make(tag: u64) -> Self {
                let mut b = [0u8; $size];
                encode(tag, &mut b);
                if $has_drop {
                    registry::on_make(tag);
                }
                $name { b }
            }
        }
        impl Clone for $name {
            #[inline]
            fn clone(&self) -> Self {
                let t = self.tag();
                // may panic (fault F2) before any copy exists
                registry::on_clone(t, $has_drop);
                $name { b: self.b }
            }
        }
    };
}
macro_rules! elem_plain {
    ($name:ident, $size:expr, $align:literal) => {
        elem_common!($name, $size, $align, false);
    };
}
macro_rules! elem_drop {
    ($name:ident, $size:expr, $align:literal) => {
        elem_common!($name, $size, $align, true);
        impl Drop for $name {
            #[inline]
            fn drop(&mut self) {
                let t = self.tag();
                // a destroyed value is recognisable in memory from now on
                for x in self.b.iter_mut() {
                    *x = DEAD_BYTE;
                }
                // may panic (fault F1) - after the value counts as destroyed
                registry::on_drop(t);
            }
        }
    };
}

elem_plain!(Z0, 0, 1);
elem_drop!(ZD, 0, 1);
elem_plain!(B1, 1, 1);
elem_drop!(D1, 1, 1);
elem_plain!(B2, 2, 2);
elem_drop!(D2a1, 2, 1);
elem_plain!(B3, 3, 1);
elem_drop!(D3, 3, 1);
elem_plain!(B8, 8, 8);
elem_drop!(D8, 8, 8);
elem_drop!(D8a4, 8, 4);
elem_plain!(B12, 12, 4);
elem_drop!(D12, 12, 4);
elem_drop!(D16a16, 16, 16);
elem_drop!(D24, 24, 8);
elem_drop!(D32a32, 32, 32);
elem_plain!(B64a64, 64, 64);
elem_drop!(D160, 160, 8);
elem_plain!(B160a32, 160, 32);

/// A distinct type with exactly the layout of `E` (same size, same alignment, same
/// bytes): the hardest wrong-type offer, since nothing but the TypeId tells them apart.
#[repr(transparent)]
#[derive(Clone)]
pub struct Twin<E>(pub E);

/// A type that is never an element type (wrong-type downcast probes).
pub struct Wrong(#[allow(dead_code)] pub u64);

#[cfg(test)]
mod tests {
    use super::*;
    #[test]
    fn layouts() {
        assert_eq!((std::mem::size_of::<Z0>(), std::mem::align_of::<Z0>()), (0, 1));
        assert_eq!((std::mem::size_of::<D3>(), std::mem::align_of::<D3>()), (3, 1));
        assert_eq!((std::mem::size_of::<D8a4>(), std::mem::align_of::<D8a4>()), (8, 4));
        assert_eq!((std::mem::size_of::<B160a32>(), std::mem::align_of::<B160a32>()), (160, 32));
        assert_eq!((std::mem::size_of::<D12>(), std::mem::align_of::<D12>()), (12, 4));
    }
}
