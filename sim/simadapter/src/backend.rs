//! Uniform face of the storage back ends for the generic world: what each one
//! supports beyond `MemBuilder`, expressed as methods so that the world code
//! needs no `MemResizable` / `MemBuilderSizeable` / `MemRawParts` bounds.

use crate::elems::Elem;
use crate::simmem::{SimBuilder, SimFixed};
#[cfg(feature = "alloc")]
use any_vec::mem::Heap;
use any_vec::mem::{MemBuilder, Stack, StackN};
use any_vec::traits::Trait;
use any_vec::{AnyVec, SatisfyTraits};
use simcore::registry::lib;
use simcore::types::*;
use std::any::TypeId;

/// `MemBuilder + 'static` (all back ends used here are plain types)
pub trait MemB: MemBuilder + 'static {}
impl<T: MemBuilder + 'static> MemB for T {}

pub trait Backend: MemBuilder + Sized + 'static {
    fn info() -> BackendInfo;
    fn builder() -> Self;
    /// `with_capacity_in` where supported, else `new_in`.
    fn with_capacity<Tr: ?Sized + Trait, E: Elem + SatisfyTraits<Tr>>(n: usize) -> AnyVec<Tr, Self> {
        let _ = n;
        lib(|| AnyVec::<Tr, Self>::new_in::<E>(Self::builder()))
    }
    /// reserve / reserve_exact / shrink_to_fit / shrink_to; false when unsupported
    fn cap_op<Tr: ?Sized + Trait, E: Elem>(v: &mut AnyVec<Tr, Self>, kind: u8, n: usize, via: u8) -> bool {
        let _ = (v, kind, n, via);
        false
    }
    /// into_raw_parts -> (optionally clone the parts and forget the original) -> from_raw_parts
    fn raw_trip<Tr: ?Sized + Trait, E: Elem>(v: AnyVec<Tr, Self>, clone_parts: bool, clone_fn: usize, ev: &mut Vec<Ev>) -> AnyVec<Tr, Self> {
        let _ = (clone_parts, clone_fn, ev);
        v
    }
}

macro_rules! resizable_backend {
    ($t:ty, $kind:expr) => {
        impl Backend for $t {
            fn info() -> BackendInfo {
                BackendInfo { kind: $kind, bytes: 0, n: 0 }
            }
            fn builder() -> Self {
                <$t>::default()
            }
            fn with_capacity<Tr: ?Sized + Trait, E: Elem + SatisfyTraits<Tr>>(n: usize) -> AnyVec<Tr, Self> {
                lib(|| AnyVec::<Tr, Self>::with_capacity_in::<E>(n, Self::builder()))
            }
            fn cap_op<Tr: ?Sized + Trait, E: Elem>(v: &mut AnyVec<Tr, Self>, kind: u8, n: usize, via: u8) -> bool {
                if via == VIA_TYPED {
                    let mut t = lib(|| v.downcast_mut::<E>()).expect("LIB: typed view of the real element type");
                    lib(|| match kind {
                        CAP_RESERVE => t.reserve(n),
                        CAP_RESERVE_EXACT => t.reserve_exact(n),
                        CAP_SHRINK_TO_FIT => t.shrink_to_fit(),
                        _ => t.shrink_to(n),
                    });
                } else {
                    lib(|| match kind {
                        CAP_RESERVE => v.reserve(n),
                        CAP_RESERVE_EXACT => v.reserve_exact(n),
                        CAP_SHRINK_TO_FIT => v.shrink_to_fit(),
                        _ => v.shrink_to(n),
                    });
                }
                true
            }
            fn raw_trip<Tr: ?Sized + Trait, E: Elem>(v: AnyVec<Tr, Self>, clone_parts: bool, clone_fn: usize, ev: &mut Vec<Ev>) -> AnyVec<Tr, Self> {
                let (len, cap) = (v.len(), v.capacity());
                let drop_fn = lib(|| v.element_drop()).map(|f| f as usize);
                let (layout, tid) = (v.element_layout(), v.element_typeid());
                let parts = lib(|| v.into_raw_parts());
                let parts = if clone_parts {
                    // field-wise clone of the parts; the original is plain data and is simply dropped
                    lib(|| parts.clone())
                } else {
                    parts
                };
                ev.push(Ev::Len(parts.len));
                let ok = parts.len == len
                    && parts.capacity == cap
                    && parts.element_layout == layout
                    && parts.element_typeid == tid
                    && parts.element_typeid == TypeId::of::<E>()
                    && parts.element_layout == std::alloc::Layout::new::<E>()
                    && parts.element_drop.is_some() == std::mem::needs_drop::<E>()
                    // the very functions the vector held (clone_fn == 0: not a Cloneable vector)
                    && parts.element_drop.map(|f| f as usize) == drop_fn
                    && (clone_fn == 0 || parts.element_clone as usize == clone_fn);
                ev.push(Ev::Bool(ok));
                lib(|| unsafe { AnyVec::<Tr, Self>::from_raw_parts(parts) })
            }
        }
    };
}

#[cfg(feature = "alloc")]
resizable_backend!(Heap, BeKind::Heap);
resizable_backend!(SimBuilder, BeKind::Sim);

impl<const SIZE: usize> Backend for Stack<SIZE> {
    fn info() -> BackendInfo {
        BackendInfo { kind: BeKind::Stack, bytes: SIZE, n: 0 }
    }
    fn builder() -> Self {
        Stack::<SIZE>
    }
}
impl<const N: usize, const SIZE: usize> Backend for StackN<N, SIZE> {
    fn info() -> BackendInfo {
        BackendInfo { kind: BeKind::StackN, bytes: SIZE, n: N }
    }
    fn builder() -> Self {
        StackN::<N, SIZE>
    }
}
impl<const N: usize> Backend for SimFixed<N> {
    fn info() -> BackendInfo {
        BackendInfo { kind: BeKind::SimFixed, bytes: 0, n: N }
    }
    fn builder() -> Self {
        SimFixed::<N>
    }
}
