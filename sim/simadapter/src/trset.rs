//! The eight constraint sets. Steps that exist only for `Cloneable` sets
//! (`clone`, lazy clones) are reached through this trait, so that the world
//! code itself needs no `Tr: Cloneable` bound.

use crate::elems::Elem;
use crate::world::{run_script, tag_of, Cx, FaultIter};
use crate::{put_value, with_range};
use any_vec::any_value::{AnyValue, AnyValueCloneable, LazyClone};
use any_vec::element::{Element, ElementRef};
use crate::backend::MemB;
#[allow(unused_imports)]
use any_vec::mem::MemBuilder;
use any_vec::traits::{Cloneable, None as TNone, Trait};
use any_vec::AnyVec;
use simcore::registry::{counters, lib};
use simcore::types::*;
use std::ops::Bound;

pub trait TrSet: Trait + 'static {
    const NAME: &'static str;
    const CLONEABLE: bool;
    /// address of the element clone function the vector reports (0: not Cloneable)
    fn clone_fn_addr<M: MemB>(v: &AnyVec<Self, M>) -> usize {
        let _ = v;
        0
    }
    fn clone_vec<M: MemB>(v: &AnyVec<Self, M>) -> Option<AnyVec<Self, M>> {
        let _ = v;
        None
    }
    fn put_lazy<E: Elem, M1: MemB, M2: MemB>(src: &mut AnyVec<Self, M1>, dst: &mut AnyVec<Self, M2>, r: &RStep, cx: &mut Cx<E>) {
        let _ = (src, dst, r);
        cx.ev.push(Ev::Unsupported);
    }
    fn take_lazy<E: Elem, M1: MemB, M2: MemB>(v: &mut AnyVec<Self, M1>, dst: &mut AnyVec<Self, M2>, r: &RStep, cx: &mut Cx<E>) {
        let _ = (v, dst, r);
        cx.ev.push(Ev::Unsupported);
    }
    fn item_lazy<E: Elem, M1: MemB, M2: MemB>(item: &Element<'_, Self, M1>, dst: &mut AnyVec<Self, M2>, cx: &mut Cx<E>) {
        let _ = (item, dst);
        cx.ev.push(Ev::Unsupported);
    }
    fn splice_lazy<E: Elem, M1: MemB, M2: MemB>(v: &mut AnyVec<Self, M1>, src: &mut AnyVec<Self, M2>, r: &RStep, cx: &mut Cx<E>) {
        let _ = (v, src, r);
        cx.ev.push(Ev::Unsupported);
    }
    fn lazy_op<E: Elem, M1: MemB, M2: MemB>(v: &mut AnyVec<Self, M1>, dst: &mut AnyVec<Self, M2>, r: &RStep, cx: &mut Cx<E>) {
        let _ = (v, dst, r);
        cx.ev.push(Ev::Unsupported);
    }
    /// `dst.push(src.at(0).lazy_clone())` - element types of src and dst may differ (C04)
    fn push_lazy_of_first<M1: MemB, M2: MemB>(src: &AnyVec<Self, M1>, dst: &mut AnyVec<Self, M2>) {
        let _ = (src, dst);
    }
}

macro_rules! plain_set {
    ($t:ty, $name:expr) => {
        impl TrSet for $t {
            const NAME: &'static str = $name;
            const CLONEABLE: bool = false;
        }
    };
}
plain_set!(dyn TNone, "None");
plain_set!(dyn Send, "Send");
plain_set!(dyn Sync, "Sync");
plain_set!(dyn Send + Sync, "Send+Sync");

macro_rules! cloneable_set {
    ($t:ty, $name:expr) => {
        impl TrSet for $t {
            const NAME: &'static str = $name;
            const CLONEABLE: bool = true;
            fn clone_fn_addr<M: MemB>(v: &AnyVec<Self, M>) -> usize {
                lib(|| v.element_clone()) as usize
            }
            fn clone_vec<M: MemB>(v: &AnyVec<Self, M>) -> Option<AnyVec<Self, M>> {
                Some(lib(|| v.clone()))
            }
            fn put_lazy<E: Elem, M1: MemB, M2: MemB>(src: &mut AnyVec<Self, M1>, dst: &mut AnyVec<Self, M2>, r: &RStep, cx: &mut Cx<E>) {
                put_lazy_impl::<E, Self, M1, M2>(src, dst, r, cx)
            }
            fn take_lazy<E: Elem, M1: MemB, M2: MemB>(v: &mut AnyVec<Self, M1>, dst: &mut AnyVec<Self, M2>, r: &RStep, cx: &mut Cx<E>) {
                take_lazy_impl::<E, Self, M1, M2>(v, dst, r, cx)
            }
            fn item_lazy<E: Elem, M1: MemB, M2: MemB>(item: &Element<'_, Self, M1>, dst: &mut AnyVec<Self, M2>, _cx: &mut Cx<E>) {
                lib(|| dst.push(item.lazy_clone()));
            }
            fn splice_lazy<E: Elem, M1: MemB, M2: MemB>(v: &mut AnyVec<Self, M1>, src: &mut AnyVec<Self, M2>, r: &RStep, cx: &mut Cx<E>) {
                splice_lazy_impl::<E, Self, M1, M2>(v, src, r, cx)
            }
            fn lazy_op<E: Elem, M1: MemB, M2: MemB>(v: &mut AnyVec<Self, M1>, dst: &mut AnyVec<Self, M2>, r: &RStep, cx: &mut Cx<E>) {
                lazy_op_impl::<E, Self, M1, M2>(v, dst, r, cx)
            }
            fn push_lazy_of_first<M1: MemB, M2: MemB>(src: &AnyVec<Self, M1>, dst: &mut AnyVec<Self, M2>) {
                let e = lib(|| src.at(0));
                let lz = lib(|| e.lazy_clone());
                lib(|| dst.push(lz));
            }
        }
    };
}
cloneable_set!(dyn Cloneable, "Cloneable");
cloneable_set!(dyn Cloneable + Send, "Cloneable+Send");
cloneable_set!(dyn Cloneable + Sync, "Cloneable+Sync");
cloneable_set!(dyn Cloneable + Send + Sync, "Cloneable+Send+Sync");

fn put_lazy_impl<E: Elem, Tr: ?Sized + TrSet + Cloneable, M1: MemB, M2: MemB>(
    src: &mut AnyVec<Tr, M1>,
    dst: &mut AnyVec<Tr, M2>,
    r: &RStep,
    _cx: &mut Cx<E>,
) {
    match r.kind {
        SRC_LAZY_REF => {
            let e = lib(|| src.at(r.j));
            let lz = lib(|| e.lazy_clone());
            put_value!(dst, r, lz)
        }
        SRC_LAZY_MUT => {
            let e = lib(|| src.at_mut(r.j));
            let lz = lib(|| e.lazy_clone());
            put_value!(dst, r, lz)
        }
        SRC_LAZY_LAZY => {
            let e = lib(|| src.at(r.j));
            let l1 = lib(|| e.lazy_clone());
            let l2 = lib(|| l1.lazy_clone());
            put_value!(dst, r, l2)
        }
        _ => {
            let h = lib(|| src.remove(r.j));
            {
                let lz = lib(|| h.lazy_clone());
                put_value!(dst, r, lz);
            }
            lib(|| drop(h));
        }
    }
}

fn take_lazy_impl<E: Elem, Tr: ?Sized + TrSet + Cloneable, M1: MemB, M2: MemB>(
    v: &mut AnyVec<Tr, M1>,
    dst: &mut AnyVec<Tr, M2>,
    r: &RStep,
    cx: &mut Cx<E>,
) {
    macro_rules! go {
        ($h:expr) => {{
            let h = $h;
            cx.ev.push(tag_of::<_, E>(&h));
            for _ in 0..r.n {
                lib(|| dst.push(h.lazy_clone()));
            }
            lib(|| drop(h));
        }};
    }
    match r.kind {
        TAKE_POP => match lib(|| v.pop()) {
            None => cx.ev.push(Ev::NoneRet),
            Some(h) => go!(h),
        },
        TAKE_REMOVE => go!(lib(|| v.remove(r.i))),
        _ => go!(lib(|| v.swap_remove(r.i))),
    }
}

fn splice_lazy_impl<E: Elem, Tr: ?Sized + TrSet + Cloneable, M1: MemB, M2: MemB>(
    v: &mut AnyVec<Tr, M1>,
    src: &mut AnyVec<Tr, M2>,
    r: &RStep,
    cx: &mut Cx<E>,
) {
    let refs: Vec<ElementRef<Tr, M2>> = (r.j..r.j + r.n).map(|k| lib(|| src.at(k))).collect();
    let repl = FaultIter::new(refs.iter().map(|e| e.lazy_clone()), r.next_panic_at, r.len_lie);
    let mut it = with_range!(r, |rg| lib(|| v.splice(rg, repl)));
    run_script::<E, Tr, M1, M2>(&mut it, None, r, cx);
    if r.sink == END_FORGET {
        std::mem::forget(it);
    } else {
        lib(|| drop(it));
    }
}

/// Consume `n` copies of a lazy clone: into `dst` (push / insert / splice) or by downcast.
fn lazy_consume<E: Elem, Tr: ?Sized + TrSet, M2: MemB, L: AnyValue + Clone>(lz: &L, dst: &mut AnyVec<Tr, M2>, r: &RStep, pool: &mut Vec<E>) {
    for _ in 0..r.n {
        let c = lz.clone();
        match r.sink {
            0 => lib(|| dst.push(c)),
            1 => lib(|| dst.insert(0, c)),
            2 => {
                let it = lib(|| dst.splice(0..0, [c]));
                lib(|| drop(it));
            }
            _ => {
                // typed consumption: the clone is made straight into the returned value
                let x = lib(|| c.downcast::<E>()).expect("LIB: downcast to the real type");
                pool.push(x);
            }
        }
    }
}

/// Build a lazy clone chain of the requested depth on `s`, check that creating,
/// copying and dropping lazy clones neither clones nor destroys, consume.
fn lazy_chain<E: Elem, Tr: ?Sized + TrSet, M2: MemB, S: AnyValueCloneable + AnyValue>(
    s: &S,
    dst: &mut AnyVec<Tr, M2>,
    r: &RStep,
    ok: &mut bool,
    pool: &mut Vec<E>,
) {
    let c0 = counters();
    let l1: LazyClone<S> = lib(|| s.lazy_clone());
    let copy = l1.clone();
    drop(copy);
    match r.form {
        1 => {
            let c1 = counters();
            *ok &= c0.clones == c1.clones && c0.drops == c1.drops;
            lazy_consume::<E, Tr, M2, _>(&l1, dst, r, pool);
        }
        2 => {
            let l2 = lib(|| l1.lazy_clone());
            let c1 = counters();
            *ok &= c0.clones == c1.clones && c0.drops == c1.drops;
            lazy_consume::<E, Tr, M2, _>(&l2, dst, r, pool);
        }
        _ => {
            let l2 = lib(|| l1.lazy_clone());
            let l3 = lib(|| l2.lazy_clone());
            let copy3 = l3.clone();
            let c1 = counters();
            *ok &= c0.clones == c1.clones && c0.drops == c1.drops;
            lazy_consume::<E, Tr, M2, _>(&l3, dst, r, pool);
            drop(copy3);
        }
    }
    // dropping the lazy clones themselves does nothing
    let c2 = counters();
    drop(l1);
    let c3 = counters();
    *ok &= c2.clones == c3.clones && c2.drops == c3.drops;
}

fn lazy_op_impl<E: Elem, Tr: ?Sized + TrSet + Cloneable, M1: MemB, M2: MemB>(
    v: &mut AnyVec<Tr, M1>,
    dst: &mut AnyVec<Tr, M2>,
    r: &RStep,
    cx: &mut Cx<E>,
) {
    let mut ok = true;
    match r.kind {
        0 => {
            let e = lib(|| v.at(r.i));
            let seen = tag_of::<_, E>(&*e);
            cx.ev.push(seen);
            lazy_chain::<E, Tr, M2, _>(&*e, dst, r, &mut ok, cx.pool);
            ok &= tag_of::<_, E>(&*e) == seen;
        }
        1 => {
            let e = lib(|| v.at_mut(r.i));
            let seen = tag_of::<_, E>(&*e);
            cx.ev.push(seen);
            lazy_chain::<E, Tr, M2, _>(&*e, dst, r, &mut ok, cx.pool);
            ok &= tag_of::<_, E>(&*e) == seen;
        }
        2 => {
            let h = lib(|| v.remove(r.i));
            let seen = tag_of::<_, E>(&h);
            cx.ev.push(seen);
            lazy_chain::<E, Tr, M2, _>(&h, dst, r, &mut ok, cx.pool);
            ok &= tag_of::<_, E>(&h) == seen;
            lib(|| drop(h));
        }
        _ => {
            let mut d = lib(|| v.drain(r.i..r.i + 1));
            let item = lib(|| d.next()).expect("LIB: one drained element");
            let seen = tag_of::<_, E>(&item);
            cx.ev.push(seen);
            lazy_chain::<E, Tr, M2, _>(&item, dst, r, &mut ok, cx.pool);
            ok &= tag_of::<_, E>(&item) == seen;
            lib(|| drop(item));
            lib(|| drop(d));
        }
    }
    cx.ev.push(Ev::Bool(ok));
}

#[allow(dead_code)]
fn _bound_used(_: Bound<usize>) {}
