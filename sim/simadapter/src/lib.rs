pub mod backend;
pub mod elems;
pub mod placed;
pub mod simmem;
pub mod trset;
pub mod world;
pub use any_vec;
