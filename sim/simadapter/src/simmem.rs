//! `SimBuilder` / `SimMem`: a user-defined storage back end that honours the
//! `MemBuilder` / `Mem` / `MemResizable` / `MemBuilderSizeable` / `MemRawParts`
//! contracts while being as adversarial as they allow: relocates on capacity
//! changes, over-provisions, poisons fresh and released storage, keeps released
//! storage in quarantine, surrounds blocks with guard zones, and can be told to
//! fail (panic) at the k-th capacity change, which the trait docs permit.

use any_vec::mem::{Mem, MemBuilder, MemBuilderSizeable, MemRawParts, MemResizable};
use simcore::env::{self, Call};
use simcore::registry::Injected;
use std::alloc::Layout;

#[derive(Clone, Copy, Default)]
pub struct SimBuilder;

pub struct SimMem {
    ptr: *mut u8,
    size: usize,
    layout: Layout,
    block: usize,
}
unsafe impl Send for SimMem {}
unsafe impl Sync for SimMem {}

impl SimMem {
    fn fresh(layout: Layout, size: usize) -> SimMem {
        let bytes = layout.size().checked_mul(size).expect("ENV: SimMem capacity overflow");
        let (ptr, block) = env::block_alloc(bytes, layout.align());
        SimMem { ptr: ptr as *mut u8, size, layout, block }
    }
    fn change(&mut self, new_size: usize) {
        if new_size == self.size {
            return;
        }
        let growing = new_size > self.size;
        let relocate = env::relocates(growing) || growing;
        if relocate {
            let bytes = self.layout.size().checked_mul(new_size).expect("ENV: SimMem capacity overflow");
            if bytes > (1 << 32) {
                panic!("ENV: SimMem out of memory");
            }
            let (ptr, block) = env::block_alloc(bytes, self.layout.align());
            let keep = self.layout.size() * self.size.min(new_size);
            unsafe { std::ptr::copy_nonoverlapping(self.ptr, ptr as *mut u8, keep) };
            env::block_release(self.block);
            self.ptr = ptr as *mut u8;
            self.block = block;
        }
        self.size = new_size;
        env::note_cap_change(relocate);
    }
}

impl MemBuilder for SimBuilder {
    type Mem = SimMem;
    fn build(&mut self, element_layout: Layout) -> SimMem {
        let _ = env::on_call(Call::Build, element_layout.size(), element_layout.align());
        SimMem::fresh(element_layout, 0)
    }
}
impl MemBuilderSizeable for SimBuilder {
    fn build_with_size(&mut self, element_layout: Layout, capacity: usize) -> SimMem {
        if env::on_call(Call::BuildSized, element_layout.size(), element_layout.align()).is_err() {
            // allocating the requested capacity failed
            std::panic::panic_any(Injected("mem"));
        }
        SimMem::fresh(element_layout, env::exact_target(capacity))
    }
}

impl Mem for SimMem {
    #[inline]
    fn as_ptr(&self) -> *const u8 {
        self.ptr
    }
    #[inline]
    fn as_mut_ptr(&mut self) -> *mut u8 {
        self.ptr
    }
    #[inline]
    fn element_layout(&self) -> Layout {
        self.layout
    }
    #[inline]
    fn size(&self) -> usize {
        self.size
    }
    fn expand(&mut self, additional: usize) {
        if env::on_call(Call::Expand, 0, 0).is_err() {
            std::panic::panic_any(Injected("mem"));
        }
        let target = env::grow_target(self.size, additional);
        self.change(target);
    }
}
impl MemResizable for SimMem {
    fn expand_exact(&mut self, additional: usize) {
        if env::on_call(Call::ExpandExact, 0, 0).is_err() {
            std::panic::panic_any(Injected("mem"));
        }
        let want = self.size.checked_add(additional).expect("ENV: SimMem capacity overflow");
        let target = env::exact_target(want);
        self.change(target);
    }
    fn resize(&mut self, new_size: usize) {
        if env::on_call(Call::Resize, 0, 0).is_err() {
            std::panic::panic_any(Injected("mem"));
        }
        self.change(new_size);
    }
}
impl Drop for SimMem {
    fn drop(&mut self) {
        let _ = env::on_call(Call::Drop, 0, 0);
        env::block_release(self.block);
    }
}

#[derive(Clone, Copy)]
pub struct SimHandle {
    ptr: usize,
    block: usize,
}
impl MemRawParts for SimMem {
    type Handle = SimHandle;
    fn into_raw_parts(self) -> (SimHandle, Layout, usize) {
        let this = std::mem::ManuallyDrop::new(self);
        (SimHandle { ptr: this.ptr as usize, block: this.block }, this.layout, this.size)
    }
    unsafe fn from_raw_parts(handle: SimHandle, element_layout: Layout, size: usize) -> Self {
        SimMem { ptr: handle.ptr as *mut u8, size, layout: element_layout, block: handle.block }
    }
}


/// User-defined *fixed-capacity* back end: N elements in an instrumented block, `Mem::expand`
/// left at its default (panics), no `MemResizable`. Unlike the inline Stack storage its capacity
/// boundary is followed by a guard zone.
#[derive(Clone, Copy, Default)]
pub struct SimFixed<const N: usize>;

pub struct SimFixedMem {
    ptr: *mut u8,
    layout: Layout,
    block: usize,
    cap: usize,
}
unsafe impl Send for SimFixedMem {}
unsafe impl Sync for SimFixedMem {}

impl<const N: usize> MemBuilder for SimFixed<N> {
    type Mem = SimFixedMem;
    fn build(&mut self, element_layout: Layout) -> SimFixedMem {
        let _ = env::on_call(Call::Build, element_layout.size(), element_layout.align());
        let (ptr, block) = env::block_alloc(element_layout.size() * N, element_layout.align());
        SimFixedMem { ptr: ptr as *mut u8, layout: element_layout, block, cap: N }
    }
}
impl Mem for SimFixedMem {
    #[inline]
    fn as_ptr(&self) -> *const u8 {
        self.ptr
    }
    #[inline]
    fn as_mut_ptr(&mut self) -> *mut u8 {
        self.ptr
    }
    #[inline]
    fn element_layout(&self) -> Layout {
        self.layout
    }
    #[inline]
    fn size(&self) -> usize {
        self.cap
    }
}
impl Drop for SimFixedMem {
    fn drop(&mut self) {
        let _ = env::on_call(Call::Drop, 0, 0);
        env::block_release(self.block);
    }
}
