//! Placement of the vector *object* at a chosen offset inside an aligned arena
//! (matters for inline `Stack` / `StackN` storage), with guard bytes around it.

use simcore::registry::{enter_harness, lib};
use std::alloc::{GlobalAlloc, Layout, System};
use std::marker::PhantomData;

pub const ARENA_ALIGN: usize = 128;
const PRE: usize = 128;
const GUARD_BYTE: u8 = 0xF7;

pub struct Placed<T> {
    base: *mut u8,
    total: usize,
    off: usize,
    _m: PhantomData<T>,
}

impl<T> Placed<T> {
    /// admissible offsets: multiples of align_of::<T>() in 0..128
    pub fn offsets() -> usize {
        (ARENA_ALIGN / std::mem::align_of::<T>()).max(1)
    }
    pub fn offset_of(raw: usize) -> usize {
        (raw % Self::offsets()) * std::mem::align_of::<T>()
    }
    pub fn new(val: T, raw: usize) -> Placed<T> {
        let _h = enter_harness();
        assert!(std::mem::align_of::<T>() <= ARENA_ALIGN);
        let total = PRE + ARENA_ALIGN + std::mem::size_of::<T>() + PRE;
        let base = unsafe { System.alloc(Layout::from_size_align(total, ARENA_ALIGN).unwrap()) };
        assert!(!base.is_null());
        unsafe { std::ptr::write_bytes(base, GUARD_BYTE, total) };
        let off = Self::offset_of(raw);
        unsafe { std::ptr::write(base.add(PRE + off) as *mut T, val) };
        Placed { base, total, off, _m: PhantomData }
    }
    #[inline]
    pub fn ptr(&self) -> *mut T {
        unsafe { self.base.add(PRE + self.off) as *mut T }
    }
    #[inline]
    pub fn get(&mut self) -> &mut T {
        unsafe { &mut *self.ptr() }
    }
    #[inline]
    pub fn get_ref(&self) -> &T {
        unsafe { &*self.ptr() }
    }
    pub fn offset(&self) -> usize {
        self.off
    }
    /// Move the object to another admissible offset (a plain Rust move).
    pub fn move_to(&mut self, raw: usize) {
        let new_off = Self::offset_of(raw);
        if new_off == self.off {
            return;
        }
        unsafe {
            let src = self.ptr() as *mut u8;
            let dst = self.base.add(PRE + new_off);
            std::ptr::copy(src, dst, std::mem::size_of::<T>());
            // repaint what the object no longer covers
            let (lo, hi) = (PRE + new_off, PRE + new_off + std::mem::size_of::<T>());
            for i in PRE..PRE + ARENA_ALIGN + std::mem::size_of::<T>() {
                if i < lo || i >= hi {
                    *self.base.add(i) = GUARD_BYTE;
                }
            }
        }
        self.off = new_off;
    }
    /// guard bytes around the object untouched?
    pub fn guards_ok(&self) -> bool {
        let (lo, hi) = (PRE + self.off, PRE + self.off + std::mem::size_of::<T>());
        unsafe { (0..self.total).all(|i| (i >= lo && i < hi) || *self.base.add(i) == GUARD_BYTE) }
    }
    /// take the value out (arena freed)
    pub fn take(self) -> T {
        let v = unsafe { std::ptr::read(self.ptr()) };
        let this = std::mem::ManuallyDrop::new(self);
        let _h = enter_harness();
        unsafe { System.dealloc(this.base, Layout::from_size_align(this.total, ARENA_ALIGN).unwrap()) };
        v
    }
}

struct ArenaFree(*mut u8, usize);
impl Drop for ArenaFree {
    fn drop(&mut self) {
        let _h = enter_harness();
        unsafe { System.dealloc(self.0, Layout::from_size_align(self.1, ARENA_ALIGN).unwrap()) };
    }
}

impl<T> Drop for Placed<T> {
    fn drop(&mut self) {
        // the arena is released even when the vector's drop panics (fault injection)
        let _free = ArenaFree(self.base, self.total);
        // dropping the vector is a library call
        lib(|| unsafe { std::ptr::drop_in_place(self.ptr()) });
    }
}
