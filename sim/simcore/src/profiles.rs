//! Per-property generation profiles and the mapping from violation classes to
//! the properties that own them (a check only reports violations of its own
//! property, so that a defect in one property never raises an alarm in another).

use crate::exec::{Class, Violation};
use crate::gen::{Focus, Profile};
use crate::types::*;

fn any_world(_: &WorldInfo) -> bool {
    true
}
fn has_resizable(w: &WorldInfo) -> bool {
    w.be[0].resizable() || w.be[1].resizable()
}
fn has_stack(w: &WorldInfo) -> bool {
    w.be[0].on_stack() || w.be[1].on_stack()
}
fn has_heap(w: &WorldInfo) -> bool {
    w.be[0].kind == BeKind::Heap || w.be[1].kind == BeKind::Heap
}
fn has_sim_or_heap(w: &WorldInfo) -> bool {
    has_heap(w) || w.be[0].kind == BeKind::Sim || w.be[1].kind == BeKind::Sim
}
fn cloneable(w: &WorldInfo) -> bool {
    w.cloneable
}
fn cloneable_drop(w: &WorldInfo) -> bool {
    w.cloneable && w.has_drop
}
fn stack_only(w: &WorldInfo) -> bool {
    w.be[0].on_stack() && w.be[1].on_stack()
}
fn raw_parts_world(w: &WorldInfo) -> bool {
    matches!(w.be[0].kind, BeKind::Heap | BeKind::Sim) || matches!(w.be[1].kind, BeKind::Heap | BeKind::Sim)
}

fn f(op: Op, kind: u8, via: u8, sink: u8, form: u8) -> Focus {
    Focus { op, kind, via, sink, form }
}

pub fn focus_put() -> Vec<Focus> {
    let mut v = Vec::new();
    for form in 0..2u8 {
        for kind in [SRC_WRAPPER, SRC_POOL] {
            for via in [VIA_ERASED, VIA_TYPED, VIA_UNCHECKED] {
                v.push(f(Op::Put, kind, via, 0, form));
            }
        }
        for kind in [SRC_RAW, SRC_POP, SRC_REMOVE, SRC_SWAP_REMOVE, SRC_LAZY_REF, SRC_LAZY_MUT, SRC_LAZY_HANDLE, SRC_LAZY_LAZY] {
            for via in [VIA_ERASED, VIA_UNCHECKED] {
                v.push(f(Op::Put, kind, via, 0, form));
            }
        }
        for kind in [SRC_TYPELESS, SRC_SIZELESS] {
            v.push(f(Op::Put, kind, VIA_UNCHECKED, 0, form));
        }
    }
    v
}
pub fn focus_take(forget: bool) -> Vec<Focus> {
    let mut v = Vec::new();
    for kind in 0..3u8 {
        for sink in 0..SINK_KINDS {
            if sink == SINK_FORGET && !forget {
                continue;
            }
            v.push(f(Op::Take, kind, VIA_ERASED, sink, 0));
        }
        v.push(f(Op::Take, kind, VIA_TYPED, SINK_DROP, 0));
        v.push(f(Op::Take, kind, VIA_TYPED, SINK_DOWNCAST_KEEP, 0));
    }
    v
}
pub fn focus_drain_splice(forget: bool) -> Vec<Focus> {
    let mut v = Vec::new();
    for form in 0..9u8 {
        for via in [VIA_ERASED, VIA_TYPED] {
            v.push(f(Op::Drain, 0, via, END_DROP, form));
            if forget {
                v.push(f(Op::Drain, 0, via, END_FORGET, form));
            }
        }
        for kind in 0..REPL_KINDS {
            v.push(f(Op::Splice, kind, VIA_ERASED, END_DROP, form));
            if forget && form % 3 == 0 {
                v.push(f(Op::Splice, kind, VIA_ERASED, END_FORGET, form));
            }
        }
        v.push(f(Op::Splice, 0, VIA_TYPED, END_DROP, form));
    }
    v
}
pub fn focus_misc() -> Vec<Focus> {
    let mut v = Vec::new();
    for via in [VIA_ERASED, VIA_TYPED] {
        v.push(f(Op::Clear, 0, via, 0, 0));
        for kind in 0..GET_KINDS {
            v.push(f(Op::Get, kind, via, 0, 0));
        }
    }
    for kind in 0..IT_KINDS {
        v.push(f(Op::Iter, kind, 0, 0, 0));
    }
    v
}

const REG_DEFAULT: [(usize, u32); 5] = [(4, 12), (12, 16), (48, 8), (600, 4), (3000, 1)];

fn base(prop: &'static str) -> Profile {
    Profile {
        prop,
        ops: vec![
            (Op::Put, 30),
            (Op::Take, 22),
            (Op::Clear, 2),
            (Op::Get, 6),
            (Op::Iter, 4),
            (Op::PushRun, 3),
            (Op::Mutate, 3),
            (Op::New, 1),
            (Op::DropVec, 1),
            (Op::MoveVec, 2),
            (Op::Drain, 6),
            (Op::Splice, 6),
            (Op::Cap, 3),
            (Op::Swap, 2),
        ],
        focus: Vec::new(),
        steps: (10, 60),
        allow_forget: false,
        allow_overflow: false,
        allow_invalid: true,
        world_ok: any_world,
        regimes: REG_DEFAULT.to_vec(),
        free_place: false,
        huge_args: true,
    }
}

pub const ALL_PROPS: [&str; 17] = ["C01", "C02", "C03", "C04", "C05", "C06", "C07", "C08", "C09", "C10", "C11", "C12", "C13", "C14", "C17", "C18", "C19"];

pub fn profile(prop: &str) -> Option<Profile> {
    let p = match prop {
        "C01" => {
            let mut p = base("C01");
            p.focus = [focus_put(), focus_take(false), focus_misc()].concat();
            p
        }
        "C02" => {
            let mut p = base("C02");
            p.ops = vec![(Op::Drain, 30), (Op::Splice, 30), (Op::Put, 14), (Op::Take, 4), (Op::PushRun, 5), (Op::Clear, 1), (Op::MoveVec, 1), (Op::Cap, 2), (Op::New, 1)];
            p.focus = focus_drain_splice(false);
            p
        }
        "C03" => {
            let mut p = base("C03");
            p.ops.extend_from_slice(&[(Op::CloneVec, 4), (Op::CloneEmpty, 1), (Op::CloneEmptyIn, 1), (Op::Lazy, 3), (Op::RawTrip, 1), (Op::Views, 1), (Op::DropVec, 2), (Op::New, 2)]);
            p.focus = [focus_put(), focus_take(false), focus_drain_splice(false)].concat();
            p
        }
        "C04" => {
            let mut p = base("C04");
            p.ops.extend_from_slice(&[(Op::TypeProbe, 40)]);
            p.steps = (8, 40);
            let mut fo = Vec::new();
            for kind in 0..TP_KINDS {
                for form in 0..2u8 {
                    fo.push(f(Op::TypeProbe, kind, 0, 0, form));
                }
            }
            p.focus = fo;
            p
        }
        "C05" => {
            let mut p = base("C05");
            p.ops.extend_from_slice(&[(Op::CloneVec, 3), (Op::Cap, 8), (Op::Views, 2), (Op::RawTrip, 1), (Op::MoveVec, 3)]);
            p.world_ok = has_sim_or_heap;
            p.focus = [focus_put(), focus_take(false), focus_drain_splice(false)].concat();
            p.focus.push(f(Op::CloneVec, 0, 0, 0, 0));
            p.focus.push(f(Op::Clear, 0, VIA_ERASED, 0, 0));
            p.focus.push(f(Op::DropVec, 0, 0, 0, 0));
            for kind in 0..4u8 {
                p.focus.push(f(Op::Cap, kind, VIA_ERASED, 0, 0));
            }
            p
        }
        "C06" => {
            let mut p = base("C06");
            p.ops.extend_from_slice(&[(Op::CloneVec, 6), (Op::Lazy, 3), (Op::DropVec, 2), (Op::New, 2), (Op::Clear, 4)]);
            p.steps = (8, 30);
            p.regimes = vec![(4, 3), (12, 4), (48, 1)];
            p.world_ok = |w| w.has_drop || w.cloneable;
            let mut fo = [focus_put(), focus_take(false), focus_drain_splice(false)].concat();
            fo.push(f(Op::Clear, 0, VIA_ERASED, 0, 0));
            fo.push(f(Op::Clear, 0, VIA_TYPED, 0, 0));
            fo.push(f(Op::CloneVec, 0, 0, 0, 0));
            fo.push(f(Op::DropVec, 0, 0, 0, 0));
            fo.push(f(Op::New, 0, 0, 0, 0));
            for k in 0..4 {
                fo.push(f(Op::Lazy, k, 0, 0, 1));
                fo.push(f(Op::Lazy, k, 0, 2, 2));
            }
            fo.push(f(Op::Mutate, MUT_ELEMENT_MUT, 0, 0, 0));
            p.focus = fo;
            p
        }
        "C07" => {
            let mut p = base("C07");
            p.allow_forget = true;
            p.steps = (8, 30);
            p.regimes = vec![(4, 3), (12, 4), (48, 1)];
            let mut fo = Vec::new();
            for kind in 0..3u8 {
                fo.push(f(Op::Take, kind, VIA_ERASED, SINK_FORGET, 0));
            }
            for form in 0..9u8 {
                fo.push(f(Op::Drain, 0, VIA_ERASED, END_FORGET, form));
                fo.push(f(Op::Drain, 0, VIA_TYPED, END_FORGET, form));
                fo.push(f(Op::Splice, form % REPL_KINDS, VIA_ERASED, END_FORGET, form));
                fo.push(f(Op::Splice, 0, VIA_TYPED, END_FORGET, form));
                // item forgotten, iterator dropped
                fo.push(f(Op::Drain, 1, VIA_ERASED, END_DROP, form));
            }
            p.focus = fo;
            p
        }
        "C08" => {
            let mut p = base("C08");
            p.ops.extend_from_slice(&[(Op::CloneVec, 25), (Op::CloneEmpty, 8), (Op::CloneEmptyIn, 8), (Op::Lazy, 2)]);
            p.world_ok = any_world;
            p.focus = vec![f(Op::CloneVec, 0, 0, 0, 0), f(Op::CloneEmpty, 0, 0, 0, 0), f(Op::CloneEmptyIn, 0, 0, 0, 0)];
            p
        }
        "C09" => {
            let mut p = base("C09");
            p.ops.extend_from_slice(&[(Op::Lazy, 40)]);
            p.world_ok = cloneable_drop;
            let mut fo = Vec::new();
            for kind in 0..4u8 {
                for depth in 0..3u8 {
                    for sink in 0..4u8 {
                        fo.push(f(Op::Lazy, kind, 0, sink, depth));
                    }
                }
            }
            for form in 0..2u8 {
                for kind in [SRC_LAZY_REF, SRC_LAZY_MUT, SRC_LAZY_HANDLE, SRC_LAZY_LAZY] {
                    fo.push(f(Op::Put, kind, VIA_ERASED, 0, form));
                }
            }
            for kind in 0..3u8 {
                fo.push(f(Op::Take, kind, VIA_ERASED, SINK_LAZY, 0));
            }
            fo.push(f(Op::Splice, REPL_LAZY, VIA_ERASED, END_DROP, 0));
            p.focus = fo;
            p
        }
        "C10" => {
            let mut p = base("C10");
            p.ops.extend_from_slice(&[(Op::Cap, 45), (Op::PushRun, 8), (Op::New, 4)]);
            p.world_ok = has_resizable;
            let mut fo = Vec::new();
            for kind in 0..4u8 {
                for via in [VIA_ERASED, VIA_TYPED] {
                    fo.push(f(Op::Cap, kind, via, 0, 0));
                }
            }
            fo.push(f(Op::New, 0, 0, 0, 1));
            // amortisation: push runs of 2^10 .. 2^14 elements (2^16 in a dedicated scenario of the thorough tier)
            fo.push(f(Op::PushRun, 0, VIA_ERASED, 0, 1));
            p.focus = fo;
            p
        }
        "C11" => {
            let mut p = base("C11");
            p.ops.extend_from_slice(&[(Op::CloneVec, 6), (Op::CloneEmptyIn, 2), (Op::Splice, 10)]);
            p.world_ok = has_stack;
            p.allow_overflow = true;
            p.regimes = vec![(4, 2), (12, 3), (48, 1)];
            let mut fo = [focus_put(), focus_take(false), focus_drain_splice(false)].concat();
            fo.push(f(Op::CloneVec, 0, 0, 0, 0));
            fo.push(f(Op::CloneEmptyIn, 0, 0, 0, 0));
            p.focus = fo;
            p
        }
        "C12" => {
            let mut p = base("C12");
            p.ops.extend_from_slice(&[(Op::Views, 30), (Op::MoveVec, 20), (Op::Cap, 6), (Op::New, 4)]);
            p.focus = vec![f(Op::Views, 0, VIA_ERASED, 0, 0), f(Op::Views, 0, VIA_TYPED, 0, 0), f(Op::MoveVec, 0, 0, 0, 0), f(Op::New, 0, 0, 0, 0)];
            p.free_place = true;
            p.steps = (6, 30);
            p
        }
        "C13" => {
            let mut p = base("C13");
            p.ops.extend_from_slice(&[(Op::Get, 25), (Op::Mutate, 25), (Op::Swap, 25), (Op::Iter, 6)]);
            let mut fo = Vec::new();
            for via in [VIA_ERASED, VIA_TYPED] {
                for kind in 0..GET_KINDS {
                    fo.push(f(Op::Get, kind, via, 0, 0));
                }
            }
            for kind in 0..MUT_KINDS {
                fo.push(f(Op::Mutate, kind, 0, 0, 0));
            }
            for kind in 0..SWP_KINDS {
                for form in 0..2u8 {
                    fo.push(f(Op::Swap, kind, 0, 0, form));
                }
            }
            fo.push(f(Op::Take, TAKE_REMOVE, VIA_ERASED, SINK_MUTATE, 0));
            fo.push(f(Op::Take, TAKE_SWAP_REMOVE, VIA_ERASED, SINK_SWAP, 0));
            fo.push(f(Op::Take, TAKE_POP, VIA_ERASED, SINK_INSPECT, 0));
            // a swap with a value of another type must be refused, not carried out over the
            // bytes of the element and its neighbours
            for form in 0..2u8 {
                fo.push(f(Op::TypeProbe, TP_SWAP, 0, 0, form));
            }
            p.focus = fo;
            p
        }
        "C14" => {
            let mut p = base("C14");
            p.ops.extend_from_slice(&[(Op::Iter, 45), (Op::Drain, 20), (Op::Splice, 12)]);
            let mut fo = Vec::new();
            for kind in 0..IT_KINDS {
                fo.push(f(Op::Iter, kind, 0, 0, 0));
            }
            for via in [VIA_ERASED, VIA_TYPED] {
                fo.push(f(Op::Drain, 0, via, END_DROP, 0));
                fo.push(f(Op::Splice, 0, via, END_DROP, 0));
            }
            p.focus = fo;
            p
        }
        "C17" => {
            let mut p = base("C17");
            p.ops.extend_from_slice(&[(Op::RawTrip, 40)]);
            p.world_ok = any_world;
            p.focus = vec![f(Op::RawTrip, 0, 0, 0, 0), f(Op::RawTrip, 0, 0, 0, 1), f(Op::RawTrip, 0, 0, 0, 2), f(Op::RawTrip, 0, 0, 0, 3)];
            p
        }
        "C18" => {
            let mut p = base("C18");
            p.ops.extend_from_slice(&[(Op::Cap, 14), (Op::New, 4), (Op::DropVec, 3), (Op::CloneVec, 4), (Op::PushRun, 4), (Op::RawTrip, 1)]);
            p.world_ok = has_heap;
            p.focus = [focus_put(), focus_take(false), focus_drain_splice(false)].concat();
            for kind in 0..4u8 {
                p.focus.push(f(Op::Cap, kind, VIA_ERASED, 0, 0));
            }
            p.focus.push(f(Op::New, 0, 0, 0, 1));
            p.focus.push(f(Op::DropVec, 0, 0, 0, 0));
            p
        }
        "C19" => {
            let mut p = base("C19");
            p.ops.extend_from_slice(&[(Op::CloneVec, 3), (Op::CloneEmptyIn, 1)]);
            p.world_ok = stack_only;
            p.allow_overflow = true;
            p.regimes = vec![(4, 2), (12, 3), (48, 1)];
            p.focus = [focus_put(), focus_take(false), focus_drain_splice(false)].concat();
            p
        }
        _ => return None,
    };
    let _ = (cloneable as fn(&WorldInfo) -> bool, has_stack as fn(&WorldInfo) -> bool);
    Some(p)
}

/// Does property `prop` own this violation?
pub fn owned(prop: &str, v: &Violation) -> bool {
    use Class::*;
    if v.class == Unsupported {
        return false; // harness problem, reported separately as exit 2
    }
    // a dead or hung process is attributed like a content violation of the step it died in,
    // and always to the memory-safety and ownership properties
    let crash = v.class == Crash;
    if crash && matches!(prop, "C03" | "C05") && v.faulted == 0 {
        return true;
    }
    let strict = v.faulted == 0;
    let content = matches!(v.class, EvMismatch | SnapMismatch | BadValue | Crash);
    let ledger = matches!(v.class, DoubleDrop | GarbageDrop | CountMismatch | AliveAtEnd);
    match prop {
        "C01" => strict && content && matches!(v.op, Op::Put | Op::Take | Op::Clear | Op::Get | Op::Iter | Op::PushRun | Op::New | Op::DropVec | Op::MoveVec | Op::Nop),
        "C02" => strict && content && matches!(v.op, Op::Drain | Op::Splice),
        // under a panicking destructor or clone (fault variants): destroyed twice, destroyed garbage,
        // or a destroyed value still reachable through a vector
        "C03" => {
            (strict && (ledger || v.class == BadValue || v.ownership))
                || matches!(v.class, DoubleDrop | GarbageDrop)
                || (v.class == RelaxedInvalid && (v.detail.contains("are alive") || v.detail.contains("is not a valid value") || v.detail.contains("visible more often")))
        }
        "C04" => v.op == Op::TypeProbe,
        "C05" => {
            matches!(v.class, MemEnv | LenGtCap | ObjectGuard | StorageLeak | BadValue | GarbageDrop | SharedStorage | Memcheck)
                || (v.class == Alloc && !v.detail.contains("layout"))
                || v.faulted == F_MEM_FAIL
                // after a fault in user code: a visible element whose bytes are no value at all is
                // storage that was never written, or was moved out or destroyed, being exposed
                || (v.class == RelaxedInvalid && v.detail.contains("is not a valid value"))
        }
        "C06" => matches!(v.faulted, F_DROP_PANIC | F_CLONE_PANIC | F_NEXT_PANIC | F_LEN_LIE | F_MEM_FAIL),
        "C07" => v.faulted == 5,
        // (a back end on which an empty vector cannot even be built is one clone_empty_in fails on)
        "C08" => v.class == SharedStorage || (strict && v.op == Op::New && v.detail.contains("constructing an empty vector")) || (strict && matches!(v.op, Op::CloneVec | Op::CloneEmpty | Op::CloneEmptyIn) && (content || ledger || v.class == CloneCount)),
        "C09" => strict && (v.class == CloneCount || (matches!(v.op, Op::Lazy) && (content || ledger))),
        "C10" => strict && (matches!(v.class, CapPost | LenGtCap) || (v.op == Op::Cap && content)),
        "C11" => v.class == HeapUseOnStack || (v.on_stack && (content || (strict && ledger) || v.class == RelaxedInvalid || v.class == LenGtCap)),
        "C12" => matches!(v.class, Misaligned | Views) || (v.op == Op::Views && content),
        // (an iterator item that is not the element at its position is C13's as much as C14's)
        "C13" => strict && content && (matches!(v.op, Op::Get | Op::Mutate | Op::Swap | Op::Iter) || (v.op == Op::TypeProbe && v.sink == TP_SWAP) || (v.op == Op::Take && v.via == VIA_ERASED && matches!(v.sink, SINK_MUTATE | SINK_SWAP | SINK_INSPECT))),
        "C14" => strict && ((v.op == Op::Iter && content) || (matches!(v.op, Op::Drain | Op::Splice) && v.class == EvMismatch && !v.panic_involved)),
        "C17" => strict && v.op == Op::RawTrip,
        "C18" => matches!(v.class, Alloc | HeapLeak | HeapBlock | Memcheck) || (crash && v.detail.contains("allocator monitor")),
        "C19" => true,
        _ => false,
    }
}
