//! Scenario (replay) file format: plain text, one step per line, complete - a
//! replay needs the file and the code, never the PRNG.

use crate::types::*;

pub fn step_to_line(s: &Step) -> String {
    let script: String = s.script.iter().map(|b| format!("{:02x}", b)).collect();
    format!(
        "step {} slot={} other={} via={} kind={} sink={} form={} a={} b={} c={} n={} script={}",
        s.op.name(),
        s.slot,
        s.other,
        s.via,
        s.kind,
        s.sink,
        s.form,
        s.a,
        s.b,
        s.c,
        s.n,
        if script.is_empty() { "-".to_string() } else { script }
    )
}

pub fn to_text(s: &Scenario, world_name: &str, prop: &str, signature: &str, detail: &str) -> String {
    let mut o = String::new();
    o.push_str("anysim-scenario v1\n");
    o.push_str(&format!("property {}\n", prop));
    o.push_str(if std::env::var("ANYSIM_ENGINE").map(|v| v == "valgrind").unwrap_or(false) {
        "build release-valgrind\n"
    } else if cfg!(debug_assertions) {
        "build checked\n"
    } else {
        "build release\n"
    });
    o.push_str(&format!("world {} {}\n", s.world, world_name));
    o.push_str(&format!("seed {}\n", s.seed));
    o.push_str(&format!(
        "policy relocate={} over_expand={} over_exact={} realloc_moves={} salt={}\n",
        s.policy.relocate, s.policy.over_expand, s.policy.over_exact, s.policy.realloc_moves, s.policy.salt
    ));
    o.push_str(&format!("place {} {} {}\n", s.place[0], s.place[1], s.place[2]));
    for f in &s.faults {
        o.push_str(&format!("fault step={} kind={} k={} delta={}\n", f.step, f.kind, f.k, f.delta));
    }
    for st in &s.steps {
        o.push_str(&step_to_line(st));
        o.push('\n');
    }
    o.push_str(&format!("expect {}\n", signature));
    for l in detail.lines() {
        o.push_str(&format!("# {}\n", l));
    }
    o
}

fn kv<'a>(tok: &'a str, key: &str) -> Option<&'a str> {
    tok.strip_prefix(key).and_then(|r| r.strip_prefix('='))
}
fn field<T: std::str::FromStr>(toks: &[&str], key: &str) -> Result<T, String> {
    for t in toks {
        if let Some(v) = kv(t, key) {
            return v.parse::<T>().map_err(|_| format!("bad value for {}: {}", key, v));
        }
    }
    Err(format!("missing field {}", key))
}

pub struct Parsed {
    pub scn: Scenario,
    pub prop: String,
    pub expect: String,
    pub world_name: String,
}

pub fn from_text(text: &str) -> Result<Parsed, String> {
    let mut lines = text.lines();
    match lines.next() {
        Some(l) if l.trim() == "anysim-scenario v1" => {}
        _ => return Err("not an anysim scenario file".into()),
    }
    let mut scn = Scenario { world: 0, seed: 0, policy: EnvPolicy::default(), place: [0; 3], steps: Vec::new(), faults: Vec::new() };
    let mut prop = String::new();
    let mut expect = String::new();
    let mut world_name = String::new();
    for l in lines {
        let l = l.trim();
        if l.is_empty() || l.starts_with('#') {
            continue;
        }
        let toks: Vec<&str> = l.split_whitespace().collect();
        match toks[0] {
            "property" => prop = toks.get(1).unwrap_or(&"").to_string(),
            "build" => {}
            "world" => {
                scn.world = toks.get(1).ok_or("world id")?.parse().map_err(|_| "world id")?;
                world_name = toks.get(2).unwrap_or(&"").to_string();
            }
            "seed" => scn.seed = toks.get(1).ok_or("seed")?.parse().map_err(|_| "seed")?,
            "policy" => {
                scn.policy = EnvPolicy {
                    relocate: field(&toks, "relocate")?,
                    over_expand: field(&toks, "over_expand")?,
                    over_exact: field(&toks, "over_exact")?,
                    realloc_moves: field(&toks, "realloc_moves")?,
                    salt: field(&toks, "salt")?,
                }
            }
            "place" => {
                for i in 0..3 {
                    scn.place[i] = toks.get(1 + i).ok_or("place")?.parse().map_err(|_| "place")?;
                }
            }
            "fault" => scn.faults.push(Fault { step: field(&toks, "step")?, kind: field(&toks, "kind")?, k: field(&toks, "k")?, delta: field(&toks, "delta")? }),
            "step" => {
                let op = Op::from_name(toks.get(1).ok_or("op")?).ok_or_else(|| format!("unknown op {}", toks[1]))?;
                let script_s: String = field(&toks, "script")?;
                let mut script = Vec::new();
                if script_s != "-" {
                    let b = script_s.as_bytes();
                    if b.len() % 2 != 0 {
                        return Err("odd script".into());
                    }
                    for i in (0..b.len()).step_by(2) {
                        script.push(u8::from_str_radix(&script_s[i..i + 2], 16).map_err(|_| "script hex")?);
                    }
                }
                scn.steps.push(Step {
                    op,
                    slot: field(&toks, "slot")?,
                    other: field(&toks, "other")?,
                    via: field(&toks, "via")?,
                    kind: field(&toks, "kind")?,
                    sink: field(&toks, "sink")?,
                    form: field(&toks, "form")?,
                    a: field(&toks, "a")?,
                    b: field(&toks, "b")?,
                    c: field(&toks, "c")?,
                    n: field(&toks, "n")?,
                    script,
                });
            }
            "expect" => expect = toks[1..].join(" "),
            other => return Err(format!("unknown line kind {}", other)),
        }
    }
    Ok(Parsed { scn, prop, expect, world_name })
}

pub fn scenario_hash(s: &Scenario) -> u64 {
    let mut h = crate::rng::LogHash::new();
    h.u64(s.world as u64);
    h.u64(s.policy.relocate as u64 | (s.policy.over_expand as u64) << 8 | (s.policy.over_exact as u64) << 16 | (s.policy.realloc_moves as u64) << 24 | (s.policy.salt as u64) << 32);
    for st in &s.steps {
        h.u64(st.op as u64 | (st.slot as u64) << 8 | (st.other as u64) << 16 | (st.via as u64) << 24 | (st.kind as u64) << 32 | (st.sink as u64) << 40 | (st.form as u64) << 48);
        h.u64(st.a);
        h.u64(st.b);
        h.u64(st.c);
        h.u64(st.n as u64);
        h.bytes(&st.script);
    }
    for f in &s.faults {
        h.u64(f.step as u64 | (f.kind as u64) << 32);
        h.u64(f.k as u64 | ((f.delta as i64 as u64) << 32));
    }
    h.0
}
