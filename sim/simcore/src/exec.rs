//! The executor: drives a world through a scenario, step by step, against the
//! model; evaluates the strict oracles after every step, the relaxed ones after
//! a step in which a fault fired (or a cancellation step), and the end-of-run
//! accounting. Pure function of (scenario, world code).

use crate::model::{Model, Pred};
use crate::registry::{self, INVALID_TAG};
use crate::rng::LogHash;
use crate::types::*;
use crate::{env, faultpoints, simalloc};

#[derive(Clone, Copy, Debug, PartialEq, Eq, Hash, PartialOrd, Ord)]
pub enum Class {
    /// returned / yielded values, None, panic or reported lengths differ from the model
    EvMismatch,
    /// contents or length of a vector differ from the model after the step
    SnapMismatch,
    /// a visible element does not decode (torn, poison, destroyed, garbage)
    BadValue,
    DoubleDrop,
    GarbageDrop,
    /// live-value ledger differs from the model (leak or missing destruction)
    CountMismatch,
    CloneCount,
    /// something is still alive after everything was dropped
    AliveAtEnd,
    LenGtCap,
    Misaligned,
    Views,
    ObjectGuard,
    /// storage guard zone / quarantine / layout violations of the simulated back end
    MemEnv,
    /// allocator monitor: layout mismatch, guard, quarantine, invalid layout
    Alloc,
    HeapLeak,
    StorageLeak,
    /// heap allocation attributed to a stack-backed vector
    HeapUseOnStack,
    /// capacity post-condition (reserve / shrink / with_capacity / amortisation)
    CapPost,
    /// heap block accounting (one block per vector, right size / alignment)
    HeapBlock,
    /// relaxed oracle: visible element dead / duplicated / outside the universe / prefix changed
    RelaxedInvalid,
    /// two vectors use overlapping element storage
    SharedStorage,
    /// Valgrind memcheck reported an error during the step (second engine)
    Memcheck,
    /// the worker process died (signal / abort)
    Crash,
    /// placeholder class for a violation minimised in a triage sub-process (signature in `context`)
    Triage,
    Unsupported,
}
impl Class {
    pub fn name(self) -> &'static str {
        match self {
            Class::EvMismatch => "ev-mismatch",
            Class::SnapMismatch => "snap-mismatch",
            Class::BadValue => "bad-value",
            Class::DoubleDrop => "double-drop",
            Class::GarbageDrop => "garbage-drop",
            Class::CountMismatch => "count-mismatch",
            Class::CloneCount => "clone-count",
            Class::AliveAtEnd => "alive-at-end",
            Class::LenGtCap => "len-gt-cap",
            Class::Misaligned => "misaligned-storage",
            Class::Views => "views",
            Class::ObjectGuard => "object-guard",
            Class::MemEnv => "mem-env",
            Class::Alloc => "alloc",
            Class::HeapLeak => "heap-leak",
            Class::StorageLeak => "storage-leak",
            Class::HeapUseOnStack => "heap-use-on-stack",
            Class::CapPost => "cap-post",
            Class::HeapBlock => "heap-block",
            Class::RelaxedInvalid => "relaxed-invalid",
            Class::SharedStorage => "shared-storage",
            Class::Memcheck => "memcheck",
            Class::Crash => "crash",
            Class::Triage => "triage",
            Class::Unsupported => "unsupported",
        }
    }
}

#[derive(Clone, Debug)]
pub struct Violation {
    pub class: Class,
    /// step index (-1: end of run)
    pub step: i32,
    pub op: Op,
    pub via: u8,
    pub sink: u8,
    /// the step touched a stack-backed vector
    pub on_stack: bool,
    /// a fault fired in the step / the step was a cancellation
    pub faulted: u8,
    /// a panic was observed or expected in the step's events
    pub panic_involved: bool,
    /// the multiset of visible values differs from the model's (duplicate or lost value)
    pub ownership: bool,
    /// replaces op/via in the signature when set (e.g. back end + alignment)
    pub context: String,
    pub detail: String,
}
impl Violation {
    /// stable signature: class/op/via[/fault] + coarse context, no numbers from the run
    pub fn signature(&self) -> String {
        let via = match self.via {
            VIA_TYPED => "typed",
            VIA_UNCHECKED => "unchecked",
            _ => "erased",
        };
        if self.class == Class::Triage {
            return self.context.clone();
        }
        if !self.context.is_empty() {
            return format!("{}/{}", self.class.name(), self.context);
        }
        let mut s = format!("{}/{}/{}", self.class.name(), self.op.name(), via);
        if self.faulted != 0 {
            s.push('/');
            s.push_str(FAULT_NAMES[self.faulted as usize]);
        }
        s
    }
}

#[derive(Clone, Debug, Default)]
pub struct ExecOpts {
    /// index of the step whose user-code invocations are counted (fault enumeration)
    pub focus: Option<usize>,
    /// C12 sweep: place objects anywhere admissible, report misalignment
    pub free_place: bool,
    pub poison_spare: bool,
    /// monitor the global allocator
    pub alloc_monitor: bool,
    /// record a textual trace
    pub trace: bool,
    /// property being checked (its own violations take precedence when a step shows several symptoms)
    pub prop: String,
    /// running under Valgrind memcheck: no own instrumentation of storage, ask the tool after every step
    pub memcheck: bool,
}

#[derive(Clone, Debug, Default)]
pub struct FocusCounts {
    pub drops: u64,
    pub clones: u64,
    pub nexts: u64,
    pub mem_calls: u64,
}

#[derive(Clone, Debug, Default)]
pub struct RunReport {
    pub violation: Option<Violation>,
    pub hash: u64,
    pub steps: u32,
    pub events: u64,
    pub seam_events: u64,
    pub nontrivial_steps: u32,
    /// per-op count of non-trivial steps
    pub op_nontrivial: [u32; 22],
    pub faults_fired: [u32; 13],
    pub focus: FocusCounts,
    pub relaxed_steps: u32,
    pub probes: u64,
    pub abstract_states: Vec<u64>,
    pub trace: Vec<String>,
    pub relocations: u64,
    pub max_len: usize,
}

// probes: rare conditions we want to know were reached
pub const P_ERASED_INSERT_SHIFT_SMALL: u64 = 1 << 0; // erased insert in front of >=2 elements, < 128 bytes shifted
pub const P_ERASED_INSERT_SHIFT_BIG: u64 = 1 << 1; // same, >= 128 bytes
pub const P_RELOC_WITH_LIVE: u64 = 1 << 2; // storage relocated while elements alive
pub const P_DRAIN_BACK_PARTIAL: u64 = 1 << 3; // next_back then drop with items left
pub const P_SPLICE_AT_FULL_FIXED: u64 = 1 << 4; // splice on a full fixed-capacity vector whose result fits
pub const P_FAULT_LAST_OF_N: u64 = 1 << 5; // panic at the last of N>1 invocations
pub const P_FORGET_AFTER_BACK: u64 = 1 << 6; // forget after a back item
pub const P_PANIC_EXPECTED: u64 = 1 << 7; // an expected (contractual) panic was observed
pub const P_FIXED_FULL_PUSH: u64 = 1 << 8; // push/insert at full fixed capacity
pub const P_ERASED_REMOVE_SHIFT_SMALL: u64 = 1 << 9;
pub const P_CLONE_ON_STACK: u64 = 1 << 10;
pub const P_LAZY_INTO_INSERT: u64 = 1 << 11;
pub const P_SHRINK_BELOW_CAP: u64 = 1 << 12;
pub const P_RESERVE_OVERFLOW: u64 = 1 << 13;
pub const P_ZST: u64 = 1 << 14;
pub const P_RANGE_INVALID: u64 = 1 << 15;
pub const PROBE_NAMES: [&str; 16] = [
    "erased_insert_shift_lt128B",
    "erased_insert_shift_ge128B",
    "relocation_with_live_elements",
    "drain_next_back_then_partial_drop",
    "splice_at_full_fixed_capacity_fits",
    "fault_at_last_of_n",
    "forget_after_back_item",
    "contractual_panic_observed",
    "put_at_full_fixed_capacity",
    "erased_remove_shift_lt128B",
    "clone_on_stack_backend",
    "lazy_clone_into_insert",
    "shrink_below_capacity",
    "reserve_overflow",
    "zero_sized_elements",
    "invalid_range",
];

struct Ctx<'a> {
    world: &'a mut dyn WorldOps,
    model: Model,
    info: WorldInfo,
    snaps: [Snap; 3],
    h: LogHash,
    rep: RunReport,
    opts: ExecOpts,
    policy: EnvPolicy,
    /// first non-fatal finding of the run (reported if nothing else is found)
    soft: Option<Violation>,
    vg_errors: usize,
    skip: u64,
}

fn hash_snap(h: &mut LogHash, s: &Snap) {
    h.u64(s.exists as u64);
    h.u64(s.len as u64);
    h.u64(s.cap as u64);
    for t in &s.tags {
        h.u64(*t);
    }
    h.u64(((s.views_ok as u64) << 2) | ((s.aligned as u64) << 1) | s.len_le_cap as u64);
}
fn hash_ev(h: &mut LogHash, ev: &[Ev]) {
    for e in ev {
        match e {
            Ev::Panic => h.u64(1),
            Ev::NoneRet => h.u64(2),
            Ev::Val(t) => {
                h.u64(3);
                h.u64(*t)
            }
            Ev::Len(n) => {
                h.u64(4);
                h.u64(*n as u64)
            }
            Ev::Bool(b) => h.u64(5 + *b as u64),
            Ev::BadVal => h.u64(7),
            Ev::Unsupported => h.u64(8),
        }
    }
}

fn touched_slots(p: &Pred) -> [bool; 3] {
    let mut t = [false; 3];
    let r = &p.r;
    if r.op == Op::Nop {
        return t;
    }
    t[r.slot] = true;
    let uses_other = match r.op {
        Op::Put => matches!(r.kind, SRC_POP | SRC_REMOVE | SRC_SWAP_REMOVE | SRC_LAZY_REF | SRC_LAZY_MUT | SRC_LAZY_HANDLE | SRC_LAZY_LAZY),
        Op::Take => matches!(r.sink, SINK_MOVE_PUSH | SINK_MOVE_INSERT | SINK_LAZY),
        Op::Drain => r.script.iter().any(|b| matches!(b >> 1, ITEM_MOVE | ITEM_LAZY | ITEM_MOVE_INSERT)),
        Op::Splice => r.script.iter().any(|b| matches!(b >> 1, ITEM_MOVE | ITEM_LAZY | ITEM_MOVE_INSERT)) || (r.via != VIA_TYPED && matches!(r.kind, REPL_LAZY | REPL_DRAIN)),
        Op::CloneVec | Op::CloneEmpty => r.slot < 2,
        Op::CloneEmptyIn => true,
        Op::Swap => matches!(r.kind, SWP_ELEMENT | SWP_HANDLE),
        Op::Lazy => true,
        _ => false,
    };
    let uses_other = uses_other && r.op != Op::TypeProbe;
    if uses_other && r.other < 3 {
        t[r.other] = true;
    }
    t
}

impl<'a> Ctx<'a> {
    fn viol(&self, class: Class, step: i32, p: Option<&Pred>, faulted: u8, detail: String) -> Violation {
        let (op, via, sink, on_stack) = match p {
            Some(p) => {
                let t = touched_slots(p);
                let on_stack = (0..3).any(|s| t[s] && self.info.be_of(s).on_stack());
                (p.r.op, p.r.via, p.r.sink, on_stack)
            }
            None => (Op::Nop, 0, 0, self.info.be[0].on_stack() || self.info.be[1].on_stack()),
        };
        Violation { class, step, op, via, sink, on_stack, faulted, panic_involved: false, ownership: false, context: String::new(), detail }
    }

    /// Report a violation unless its class is masked (the strict checks of a step are re-run with
    /// the classes already found masked, so that every symptom of the step is collected and the
    /// property being checked can pick the one it owns).
    #[inline]
    fn emit(&self, v: Violation) -> Result<(), Violation> {
        if self.skip & (1u64 << (v.class as u64)) != 0 {
            Ok(())
        } else {
            Err(v)
        }
    }

    fn take_snaps(&mut self) {
        for s in 0..3 {
            self.snaps[s] = self.world.snapshot(s);
        }
    }

    /// checks that hold after every step, strict or relaxed
    fn check_common(&mut self, step: i32, p: Option<&Pred>, faulted: u8) -> Result<(), Violation> {
        for s in 0..3 {
            let sn = &self.snaps[s];
            if sn.exists && !sn.aligned {
                if self.opts.free_place {
                    // the placement sweep (C12) notes the finding, restores an aligned placement
                    // and goes on, so that one finding does not hide the rest of the run
                    if self.soft.is_none() {
                        let mut v = self.viol(
                            Class::Misaligned,
                            step,
                            p,
                            faulted,
                            format!("slot {} ({}): element storage is not aligned to {} (vector object placed at an admissible address)", s, self.info.be_of(s).label(), self.info.align),
                        );
                        v.context = format!("{}/align={}", self.info.be_of(s).kind.name(), self.info.align);
                        self.soft = Some(v);
                    }
                    self.world.realign(s);
                    self.snaps[s] = self.world.snapshot(s);
                    continue;
                }
                let mut v = self.viol(
                    Class::Misaligned,
                    step,
                    p,
                    faulted,
                    format!("slot {} ({}): element storage is not aligned to {} (vector object placed at an admissible address)", s, self.info.be_of(s).label(), self.info.align),
                );
                v.context = format!("{}/align={}", self.info.be_of(s).kind.name(), self.info.align);
                self.emit(v)?;
            }
        }
        let c = registry::counters();
        if c.double_drops > 0 {
            self.emit(self.viol(Class::DoubleDrop, step, p, faulted, format!("{} value(s) destroyed twice (first tag {})", c.double_drops, registry::first_bad_tag())))?;
        }
        if c.garbage_drops > 0 || c.garbage_clones > 0 {
            self.emit(self.viol(
                Class::GarbageDrop,
                step,
                p,
                faulted,
                format!("{} destructor / {} clone call(s) on bytes that are not a live value", c.garbage_drops, c.garbage_clones),
            ))?;
        }
        let ev = env::take_violations();
        if let Some(m) = ev.into_iter().next() {
            self.emit(self.viol(Class::MemEnv, step, p, faulted, m))?;
        }
        for s in 0..3 {
            let sn = &self.snaps[s];
            if !sn.exists {
                continue;
            }
            if !sn.len_le_cap {
                self.emit(self.viol(Class::LenGtCap, step, p, faulted, format!("slot {}: len {} > capacity {}", s, sn.len, sn.cap)))?;
            }
            if !sn.aligned {
                let mut v = self.viol(Class::Misaligned, step, p, faulted, format!("slot {} ({}): element storage is not aligned to {}", s, self.info.be_of(s).label(), self.info.align));
                v.context = format!("{}/align={}", self.info.be_of(s).kind.name(), self.info.align);
                self.emit(v)?;
            }
            if let Some(j) = sn.spare_bad {
                self.emit(self.viol(
                    Class::MemEnv,
                    step,
                    p,
                    faulted,
                    format!("slot {}: spare-capacity slot {} (len {}, capacity {}) holds bytes that are neither the poison put there, fresh-storage fill, a destroyed value nor a whole element: the operation copied from outside the initialised elements or outside the capacity", s, j, sn.len, sn.cap),
                ))?;
            }
            if !sn.object_guards_ok {
                self.emit(self.viol(Class::ObjectGuard, step, p, faulted, format!("slot {}: bytes around the vector object overwritten", s)))?;
            }
            if !sn.views_ok {
                self.emit(self.viol(Class::Views, step, p, faulted, format!("slot {}: len/is_empty/as_bytes/typed view/type id/layout reports inconsistent", s)))?;
            }
        }
        if let Some(m) = env::check() {
            self.emit(self.viol(Class::MemEnv, step, p, faulted, m))?;
        }
        if self.opts.alloc_monitor {
            if let Some(m) = simalloc::check() {
                self.emit(self.viol(Class::Alloc, step, p, faulted, m))?;
            }
        }
        // storage block accounting
        let size = self.info.size;
        let mut heap_expected = 0u64;
        for s in 0..3 {
            let sn = &self.snaps[s];
            if !sn.exists {
                continue;
            }
            let bytes = sn.cap.saturating_mul(size);
            match self.info.be_of(s).kind {
                BeKind::Sim | BeKind::SimFixed => match env::lookup(sn.storage_addr) {
                    Some(b) => {
                        if b.len < bytes {
                            self.emit(self.viol(Class::MemEnv, step, p, faulted, format!("slot {}: capacity {} x {} B exceeds the storage block of {} B", s, sn.cap, size, b.len)))?;
                        }
                    }
                    None => {
                        self.emit(self.viol(Class::MemEnv, step, p, faulted, format!("slot {}: storage pointer is not the start of a live storage block", s)))?;
                    }
                },
                BeKind::Heap if self.opts.alloc_monitor => {
                    if bytes > 0 {
                        heap_expected += 1;
                        match simalloc::lookup(sn.storage_addr) {
                            Some((bsize, balign)) => {
                                if bsize < bytes || balign < self.info.align {
                                    self.emit(self.viol(
                                        Class::HeapBlock,
                                        step,
                                        p,
                                        faulted,
                                        format!("slot {}: heap block size {} align {} for capacity {} x {} B align {}", s, bsize, balign, sn.cap, size, self.info.align),
                                    ))?;
                                }
                            }
                            None => {
                                self.emit(self.viol(Class::HeapBlock, step, p, faulted, format!("slot {}: capacity {} but storage is not a live heap block", s, sn.cap)))?;
                            }
                        }
                    }
                }
                _ => {}
            }
        }
        // separately owned storage: no two vectors share or overlap storage bytes
        for a in 0..3 {
            for b in (a + 1)..3 {
                let (sa, sb) = (&self.snaps[a], &self.snaps[b]);
                if sa.exists && sb.exists && sa.storage_addr != 0 && sb.storage_addr != 0 {
                    let (la, lb) = (sa.cap.saturating_mul(size), sb.cap.saturating_mul(size));
                    if la > 0 && lb > 0 && sa.storage_addr < sb.storage_addr.saturating_add(lb) && sb.storage_addr < sa.storage_addr.saturating_add(la) {
                        self.emit(self.viol(Class::SharedStorage, step, p, faulted, format!("slots {} and {} use overlapping element storage", a, b)))?;
                    }
                }
            }
        }
        if self.opts.alloc_monitor {
            let live = simalloc::counters().live;
            if live != heap_expected {
                self.emit(self.viol(
                    Class::HeapBlock,
                    step,
                    p,
                    faulted,
                    format!("{} live heap block(s) owned by the library, {} expected (one per heap vector with capacity x size > 0)", live, heap_expected),
                ))?;
            }
        }
        Ok(())
    }

    /// visible values over all vectors and the pool, as a multiset, vs the model's
    fn multiset_differs(&self) -> bool {
        let mut a: Vec<u64> = Vec::new();
        let mut b: Vec<u64> = Vec::new();
        for s in 0..3 {
            a.extend_from_slice(&self.snaps[s].tags);
            if let Some(mv) = &self.model.vecs[s] {
                b.extend_from_slice(&mv.tags);
            }
        }
        a.sort_unstable();
        b.sort_unstable();
        a != b
    }

    fn check_strict(&mut self, step: i32, p: &Pred, obs: &[Ev]) -> Result<(), Violation> {
        if obs.iter().any(|e| *e == Ev::Unsupported) {
            let diag = self.world.take_diag();
            self.emit(self.viol(Class::Unsupported, step, Some(p), 0, format!("harness: step variant not supported in this world, or harness panic: {} {:?}", diag, p.r)))?;
        }
        if obs != &p.ev[..] {
            let diag = self.world.take_diag();
            let mut v = self.viol(Class::EvMismatch, step, Some(p), 0, format!("observed {:?}, model expects {:?} {}", short_ev(obs), short_ev(&p.ev), diag));
            v.panic_involved = obs.iter().chain(p.ev.iter()).any(|e| *e == Ev::Panic);
            self.emit(v)?;
        }
        self.check_common(step, Some(p), 0)?;
        for s in 0..3 {
            let sn = &self.snaps[s];
            let exp = self.model.vecs[s].as_ref();
            if sn.exists != exp.is_some() {
                self.emit(self.viol(Class::SnapMismatch, step, Some(p), 0, format!("slot {} existence", s)))?;
            }
            if let Some(mv) = exp {
                if sn.tags.iter().any(|t| *t == INVALID_TAG) {
                    let pos = sn.tags.iter().position(|t| *t == INVALID_TAG).unwrap();
                    let mut v = self.viol(
                        Class::BadValue,
                        step,
                        Some(p),
                        0,
                        format!("slot {}: element {} of {} is not a valid value (torn / poison / destroyed); expected {:?}", s, pos, sn.len, short_tags(&mv.tags)),
                    );
                    v.ownership = true;
                    self.emit(v)?;
                }
                if sn.tags != mv.tags {
                    let mut v = self.viol(Class::SnapMismatch, step, Some(p), 0, format!("slot {}: contents {:?}, Vec model has {:?}", s, short_tags(&sn.tags), short_tags(&mv.tags)));
                    v.ownership = self.multiset_differs();
                    self.emit(v)?;
                }
            }
        }
        let pool = self.world.pool_tags();
        if pool != self.model.pool {
            self.emit(self.viol(Class::SnapMismatch, step, Some(p), 0, format!("extracted values {:?}, model {:?}", short_tags(&pool), short_tags(&self.model.pool))))?;
        }
        if self.info.has_drop {
            if let Some((tag, e, a)) = registry::diff_counts(&self.model.counts) {
                self.emit(self.viol(Class::CountMismatch, step, Some(p), 0, format!("value {}: {} live instance(s), model expects {}", tag, a, e)))?;
            }
        }
        let c = registry::counters();
        if c.clones != self.model.clones {
            self.emit(self.viol(Class::CloneCount, step, Some(p), 0, format!("{} Clone calls so far, model expects {}", c.clones, self.model.clones)))?;
        }
        Ok(())
    }

    /// After a fault fired (or a cancellation step): validity only, then re-synchronise the model.
    fn check_relaxed(&mut self, step: i32, p: &Pred, faulted: u8) -> Result<(), Violation> {
        self.check_common(step, Some(p), faulted)?;
        let rx = &p.relax;
        let mut touched = rx.touched;
        let t2 = touched_slots(p);
        for s in 0..3 {
            touched[s] |= t2[s];
        }
        let mut universe: Vec<u64> = rx.universe.clone();
        universe.extend_from_slice(&p.r.tags);
        universe.sort_unstable();
        let mut visible: Vec<u64> = Vec::new();
        for s in 0..3 {
            let sn = &self.snaps[s];
            if let Some(pos) = sn.tags.iter().position(|t| *t == INVALID_TAG) {
                return Err(self.viol(Class::RelaxedInvalid, step, Some(p), faulted, format!("slot {}: element {} of {} is not a valid value", s, pos, sn.len)));
            }
            if !touched[s] {
                let same = match (&rx.before[s], sn.exists) {
                    (Some(b), true) => *b == sn.tags,
                    (None, false) => true,
                    _ => false,
                };
                if !same {
                    return Err(self.viol(
                        Class::RelaxedInvalid,
                        step,
                        Some(p),
                        faulted,
                        format!("slot {} was not involved in the step but changed: {:?} -> {:?}", s, rx.before[s].as_ref().map(|b| short_tags(b)), short_tags(&sn.tags)),
                    ));
                }
            } else if sn.exists {
                if let Some(b) = &rx.before[s] {
                    // "elements before the affected index are unchanged" is promised for a forgotten
                    // handle or iterator (C07) only; after a panic in user code, a storage failure or a
                    // capacity overflow the promise is validity - leaking any element is permitted
                    let k = if faulted == F_FORGET { rx.prefix[s].min(b.len()) } else { 0 };
                    if sn.tags.len() < k || sn.tags[..k] != b[..k] {
                        return Err(self.viol(
                            Class::RelaxedInvalid,
                            step,
                            Some(p),
                            faulted,
                            format!("slot {}: first {} element(s) must be untouched: before {:?}, after {:?}", s, k, short_tags(b), short_tags(&sn.tags)),
                        ));
                    }
                }
                visible.extend_from_slice(&sn.tags);
            }
        }
        let pool = self.world.pool_tags();
        visible.extend_from_slice(&pool);
        visible.sort_unstable();
        // multiset inclusion visible(touched+pool) <= universe
        {
            let mut i = 0usize;
            for v in &visible {
                while i < universe.len() && universe[i] < *v {
                    i += 1;
                }
                if i >= universe.len() || universe[i] != *v {
                    return Err(self.viol(
                        Class::RelaxedInvalid,
                        step,
                        Some(p),
                        faulted,
                        format!("value {} is visible more often than it can legitimately exist (duplicate, or handed-out / foreign value)", v),
                    ));
                }
                i += 1;
            }
        }
        // every visible value alive: occurrences over *all* vectors and pool <= live count
        if self.info.has_drop {
            let mut all: Vec<u64> = Vec::new();
            for s in 0..3 {
                all.extend_from_slice(&self.snaps[s].tags);
            }
            all.extend_from_slice(&pool);
            all.sort_unstable();
            let mut i = 0;
            while i < all.len() {
                let mut j = i;
                while j < all.len() && all[j] == all[i] {
                    j += 1;
                }
                let live = registry::live(all[i]);
                if (j - i) as i32 > live {
                    return Err(self.viol(
                        Class::RelaxedInvalid,
                        step,
                        Some(p),
                        faulted,
                        format!("value {} is visible {} time(s) but only {} instance(s) are alive (destroyed or duplicated value still reachable)", all[i], j - i, live),
                    ));
                }
                i = j;
            }
        }
        // re-synchronise
        for s in 0..3 {
            self.model.vecs[s] = if self.snaps[s].exists { Some(crate::model::MVec { tags: self.snaps[s].tags.clone() }) } else { None };
        }
        self.model.pool = pool.clone();
        if self.info.has_drop {
            let n = self.model.counts.len();
            let mut counts = vec![0i32; n];
            for (t, c) in counts.iter_mut().enumerate() {
                *c = registry::live(t as u64);
            }
            let mut leaks = counts.clone();
            for s in 0..3 {
                for t in &self.snaps[s].tags {
                    leaks[*t as usize] -= 1;
                }
            }
            for t in &pool {
                leaks[*t as usize] -= 1;
            }
            self.model.counts = counts;
            self.model.leaks = leaks;
        }
        self.model.clones = registry::counters().clones;
        self.rep.relaxed_steps += 1;
        Ok(())
    }

    fn cap_post(&mut self, step: i32, p: &Pred, before: &[Snap; 3], mem_before: env::MemCounters, alloc_before: simalloc::AllocCounters, panicked: bool) -> Result<(), Violation> {
        let r = &p.r;
        // len <= capacity is in check_common. Here: the promises of the capacity calls.
        if r.op == Op::Cap && !panicked {
            let b = &before[r.slot];
            let a = &self.snaps[r.slot];
            let len = b.len;
            let heap = self.info.be_of(r.slot).kind == BeKind::Heap;
            let mem_now = env::counters();
            let alloc_now = simalloc::counters();
            let seam_events = (mem_now.calls() - mem_before.calls()) + (alloc_now.allocs + alloc_now.reallocs + alloc_now.deallocs) - (alloc_before.allocs + alloc_before.reallocs + alloc_before.deallocs);
            match r.kind {
                CAP_RESERVE | CAP_RESERVE_EXACT => {
                    let need = len + r.n;
                    if a.cap < need {
                        self.emit(self.viol(Class::CapPost, step, Some(p), 0, format!("after reserve({}) on len {}: capacity {} < {}", r.n, len, a.cap, need)))?;
                    }
                    if b.cap >= need && (a.cap != b.cap || mem_now.cap_changes != mem_before.cap_changes || (self.opts.alloc_monitor && heap && seam_events != 0)) {
                        self.emit(self.viol(
                            Class::CapPost,
                            step,
                            Some(p),
                            0,
                            format!("reserve({}) with sufficient capacity {} (len {}) changed capacity to {} or touched the storage", r.n, b.cap, len, a.cap),
                        ))?;
                    }
                }
                CAP_SHRINK_TO_FIT | CAP_SHRINK_TO => {
                    let bound = if r.kind == CAP_SHRINK_TO_FIT { len } else { len.max(r.n) };
                    if a.cap > b.cap {
                        self.emit(self.viol(Class::CapPost, step, Some(p), 0, format!("shrink increased capacity {} -> {} (len {}, bound {})", b.cap, a.cap, len, bound)))?;
                    }
                    let floor = b.cap.min(bound);
                    if a.cap < floor {
                        self.emit(self.viol(Class::CapPost, step, Some(p), 0, format!("shrink went below the bound: capacity {} -> {} (len {}, bound {})", b.cap, a.cap, len, bound)))?;
                    }
                    if heap && a.cap != floor {
                        self.emit(self.viol(Class::CapPost, step, Some(p), 0, format!("heap shrink: capacity {} -> {}, expected exactly {}", b.cap, a.cap, floor)))?;
                    }
                    if a.cap < b.cap {
                        self.rep.probes |= P_SHRINK_BELOW_CAP;
                    }
                }
                _ => {}
            }
        }
        if r.op == Op::RawTrip && r.form < 2 && !panicked {
            // decomposing and rebuilding neither changes the capacity nor touches the storage
            let b = &before[r.slot];
            let a = &self.snaps[r.slot];
            let mem_now = env::counters();
            let alloc_now = simalloc::counters();
            let heap = self.info.be_of(r.slot).kind == BeKind::Heap;
            let traffic = (mem_now.cap_changes - mem_before.cap_changes)
                + if self.opts.alloc_monitor && heap { (alloc_now.allocs + alloc_now.reallocs + alloc_now.deallocs) - (alloc_before.allocs + alloc_before.reallocs + alloc_before.deallocs) } else { 0 };
            if b.exists && a.exists && (a.cap != b.cap || a.storage_addr != b.storage_addr || traffic != 0) {
                self.emit(self.viol(
                    Class::CapPost,
                    step,
                    Some(p),
                    0,
                    format!("raw-parts round trip: capacity {} -> {}, storage {:#x} -> {:#x}, {} storage request(s)", b.cap, a.cap, b.storage_addr, a.storage_addr, traffic),
                ))?;
            }
        }
        if r.op == Op::New && r.form == 1 && !panicked {
            let a = &self.snaps[r.slot];
            if a.cap < r.n {
                self.emit(self.viol(Class::CapPost, step, Some(p), 0, format!("with_capacity({}) gave capacity {}", r.n, a.cap)))?;
            }
        }
        let amortising = match self.info.be_of(r.slot).kind {
            BeKind::Heap => self.opts.alloc_monitor,
            // a user back end decides its own growth; only the doubling policy makes the count the library's
            BeKind::Sim => self.policy.over_expand == 2,
            _ => false,
        };
        if r.op == Op::PushRun && r.n >= 64 && amortising && self.info.size > 0 {
            let mem_now = env::counters();
            let alloc_now = simalloc::counters();
            let changes = (mem_now.cap_changes - mem_before.cap_changes) + (alloc_now.allocs + alloc_now.reallocs) - (alloc_before.allocs + alloc_before.reallocs);
            let log2 = 64 - (r.n as u64).leading_zeros() as u64;
            if changes > 3 * log2 + 10 {
                self.emit(self.viol(Class::CapPost, step, Some(p), 0, format!("{} pushes caused {} reallocations (> 3*log2+10 = {}): growth is not amortised", r.n, changes, 3 * log2 + 10)))?;
            }
        }
        Ok(())
    }
}

pub fn short_tags(t: &[u64]) -> String {
    let mut s = String::from("[");
    for (i, x) in t.iter().enumerate() {
        if i >= 24 {
            s.push_str(&format!(",..({} total)", t.len()));
            break;
        }
        if i > 0 {
            s.push(',');
        }
        if *x == INVALID_TAG {
            s.push('X');
        } else {
            s.push_str(&x.to_string());
        }
    }
    s.push(']');
    s
}
pub fn short_ev(e: &[Ev]) -> String {
    let mut s = String::from("[");
    for (i, x) in e.iter().enumerate() {
        if i >= 24 {
            s.push_str(&format!(",..({} total)", e.len()));
            break;
        }
        if i > 0 {
            s.push(',');
        }
        match x {
            Ev::Panic => s.push_str("PANIC"),
            Ev::NoneRet => s.push_str("None"),
            Ev::Val(t) => s.push_str(&format!("v{}", t)),
            Ev::Len(n) => s.push_str(&format!("len{}", n)),
            Ev::Bool(b) => s.push_str(if *b { "ok" } else { "NOT-OK" }),
            Ev::BadVal => s.push_str("BADVAL"),
            Ev::Unsupported => s.push_str("UNSUPPORTED"),
        }
    }
    s.push(']');
    s
}

fn probes_before(p: &Pred, lens: [usize; 3], fixed: [Option<usize>; 3], info: &WorldInfo) -> u64 {
    let r = &p.r;
    let mut pr = 0u64;
    if info.size == 0 {
        pr |= P_ZST;
    }
    let len = lens[r.slot];
    match r.op {
        Op::Put => {
            if r.form == 1 && r.via != VIA_TYPED && !matches!(r.kind, SRC_WRAPPER | SRC_POOL) && r.i < len && len - r.i >= 2 {
                if (len - r.i) * info.size < 128 {
                    pr |= P_ERASED_INSERT_SHIFT_SMALL;
                } else {
                    pr |= P_ERASED_INSERT_SHIFT_BIG;
                }
            }
            if fixed[r.slot] == Some(len) {
                pr |= P_FIXED_FULL_PUSH;
            }
            if r.form == 1 && matches!(r.kind, SRC_LAZY_REF | SRC_LAZY_MUT | SRC_LAZY_HANDLE | SRC_LAZY_LAZY) && r.i < len {
                pr |= P_LAZY_INTO_INSERT;
            }
        }
        Op::Take => {
            if r.kind == TAKE_REMOVE && r.via == VIA_ERASED && r.i < len && len - r.i >= 3 && (len - r.i) * info.size < 128 {
                pr |= P_ERASED_REMOVE_SHIFT_SMALL;
            }
        }
        Op::Drain | Op::Splice => {
            let backs = r.script.iter().filter(|b| *b & 1 == 1).count();
            if backs > 0 && r.sink == END_DROP {
                pr |= P_DRAIN_BACK_PARTIAL;
            }
            if backs > 0 && r.sink == END_FORGET {
                pr |= P_FORGET_AFTER_BACK;
            }
            if r.op == Op::Splice && fixed[r.slot] == Some(len) && len > 0 {
                pr |= P_SPLICE_AT_FULL_FIXED;
            }
            if p.ev.first() == Some(&Ev::Panic) {
                pr |= P_RANGE_INVALID;
            }
        }
        Op::CloneVec => {
            if info.be_of(r.slot).on_stack() && len > 0 {
                pr |= P_CLONE_ON_STACK;
            }
        }
        Op::Cap => {
            if p.ev.first() == Some(&Ev::Panic) {
                pr |= P_RESERVE_OVERFLOW;
            }
        }
        _ => {}
    }
    if p.ev.iter().any(|e| *e == Ev::Panic) {
        pr |= P_PANIC_EXPECTED;
    }
    pr
}

/// Execute a scenario. The world must belong to `scn.world`.
pub fn run(scn: &Scenario, world: &mut dyn WorldOps, opts: &ExecOpts) -> RunReport {
    let info = world.info();
    registry::disarm();
    registry::reset(crate::model::TAG_SPACE_MAX.min(info.tag_mod as usize).max(1));
    faultpoints::reset();
    env::set_passthrough(opts.memcheck);
    env::begin_run(scn.policy, info.size, info.align);
    simalloc::begin_run(opts.alloc_monitor, scn.policy.realloc_moves != 0);
    world.configure(opts.free_place, opts.poison_spare);
    world.reset(scn.place);
    let mut cx = Ctx { world, model: Model::new(info.clone()), info: info.clone(), snaps: Default::default(), h: LogHash::new(), rep: RunReport::default(), opts: opts.clone(), policy: scn.policy, soft: None, vg_errors: if opts.memcheck { crate::vg::count_errors() } else { 0 }, skip: 0 };
    cx.h.u64(scn.world as u64);
    cx.take_snaps();

    let result = run_steps(&mut cx, scn);
    let mut rep = std::mem::take(&mut cx.rep);
    let mut violation = result.err();

    // end of run
    registry::disarm();
    env::disarm_failure();
    let clean_drop = cx.world.teardown();
    if violation.is_none() {
        cx.model.teardown();
        if !clean_drop {
            violation = Some(cx.viol(Class::EvMismatch, -1, None, 0, "dropping the vectors at the end of the run panicked".to_string()));
        }
    }
    if violation.is_none() {
        let c = registry::counters();
        if c.double_drops > 0 || c.garbage_drops > 0 {
            violation = Some(cx.viol(Class::DoubleDrop, -1, None, 0, format!("final drop: {} double / {} garbage destructor call(s)", c.double_drops, c.garbage_drops)));
        } else if info.has_drop {
            if let Some((tag, e, a)) = registry::diff_counts(&cx.model.leaks) {
                violation = Some(cx.viol(
                    Class::AliveAtEnd,
                    -1,
                    None,
                    0,
                    format!("after everything was dropped value {} has {} live instance(s); permitted leaks {}", tag, a, e),
                ));
            }
        }
    }
    let env_end = env::end_run();
    let alloc_end = simalloc::end_run();
    if violation.is_none() {
        if let Some(m) = env_end {
            let class = if m.contains("never released") { Class::StorageLeak } else { Class::MemEnv };
            violation = Some(cx.viol(class, -1, None, 0, m));
        } else if let Some(m) = alloc_end {
            let class = if m.contains("never freed") { Class::HeapLeak } else { Class::Alloc };
            violation = Some(cx.viol(class, -1, None, 0, m));
        }
    }
    rep.hash = cx.h.0;
    if violation.is_none() {
        violation = cx.soft.take();
    }
    rep.violation = violation;
    rep
}

fn run_steps(cx: &mut Ctx, scn: &Scenario) -> Result<(), Violation> {
    // initial state must be sane too
    for s in 0..3 {
        if !cx.snaps[s].exists {
            let mut v = cx.viol(Class::EvMismatch, -2, None, 0, format!("constructing an empty vector on {} panicked", cx.info.be_of(s).label()));
            v.op = Op::New;
            v.on_stack = cx.info.be_of(s).on_stack();
            v.panic_involved = true;
            return Err(v);
        }
    }
    cx.check_common(-2, None, 0)?;
    for (si, st) in scn.steps.iter().enumerate() {
        let step = si as i32;
        let caps = [cx.snaps[0].cap, cx.snaps[1].cap, cx.snaps[2].cap];
        let model_before = if cx.opts.trace { Some(cx.model.clone()) } else { None };
        // probes need the pre-state lengths; cheap copy of lengths only
        let pre_lens = [cx.model.len(0), cx.model.len(1), cx.model.len(2)];
        let pre_fixed = [cx.model.fixed_cap(0), cx.model.fixed_cap(1), cx.model.fixed_cap(2)];
        let lie = scn.faults.iter().find(|f| f.step as usize == si && f.kind == F_LEN_LIE).map(|f| f.delta).unwrap_or(0);
        let mut p = cx.model.apply_with(st, caps, lie);
        // planned faults for this step
        let mut drop_k = 0u64;
        let mut clone_k = 0u64;
        let mut mem_k = 0u64;
        let mut planned: u8 = 0;
        for f in scn.faults.iter().filter(|f| f.step as usize == si) {
            match f.kind {
                F_DROP_PANIC => drop_k = f.k as u64,
                F_CLONE_PANIC => clone_k = f.k as u64,
                F_NEXT_PANIC => p.r.next_panic_at = f.k,
                F_LEN_LIE => p.r.len_lie = f.delta,
                F_MEM_FAIL => mem_k = f.k as u64,
                _ => {}
            }
            planned = f.kind;
        }
        cx.rep.probes |= probes_before(&p, pre_lens, pre_fixed, &cx.info);
        let before_snaps = cx.snaps.clone();
        let c0 = registry::counters();
        let m0 = env::counters();
        let a0 = simalloc::counters();
        let n0 = (faultpoints::next_calls(), faultpoints::next_fired(), faultpoints::len_lies());
        if p.abort_risk {
            // see model: a panic while this splice is alive would abort the process
            drop_k = 0;
            clone_k = 0;
            p.r.next_panic_at = 0;
        }
        if planned != 0 {
            registry::arm(drop_k, clone_k);
            env::arm_failure(mem_k);
        }
        let obs = cx.world.exec(&p.r);
        registry::disarm();
        env::disarm_failure();
        let c1 = registry::counters();
        let m1 = env::counters();
        let a1 = simalloc::counters();
        let n1 = (faultpoints::next_calls(), faultpoints::next_fired(), faultpoints::len_lies());
        cx.take_snaps();
        if cx.opts.memcheck {
            let e = crate::vg::count_errors();
            if e > cx.vg_errors {
                let n = e - cx.vg_errors;
                cx.vg_errors = e;
                return Err(cx.viol(Class::Memcheck, step, Some(&p), 0, format!("Valgrind memcheck reported {} error(s) while this step (or the snapshot after it) ran; see the memcheck log", n)));
            }
        }

        // which fault actually fired
        let mut fired: u8 = 0;
        if c1.fired_drop > c0.fired_drop {
            fired = F_DROP_PANIC;
        } else if c1.fired_clone > c0.fired_clone {
            fired = F_CLONE_PANIC;
        } else if n1.1 > n0.1 {
            fired = F_NEXT_PANIC;
        } else if m1.injected_failures > m0.injected_failures {
            fired = F_MEM_FAIL;
        } else if n1.2 > n0.2 {
            fired = F_LEN_LIE;
        }
        if fired != 0 {
            cx.rep.faults_fired[fired as usize] += 1;
        }
        if cx.opts.focus == Some(si) {
            cx.rep.focus = FocusCounts { drops: c1.lib_drops - c0.lib_drops, clones: c1.lib_clones - c0.lib_clones, nexts: n1.0 - n0.0, mem_calls: m1.calls() - m0.calls() };
        }
        // bookkeeping
        cx.rep.steps += 1;
        cx.rep.events += obs.len() as u64;
        cx.rep.seam_events += (m1.calls() - m0.calls()) + (a1.allocs + a1.reallocs + a1.deallocs - a0.allocs - a0.reallocs - a0.deallocs) + (c1.drops - c0.drops) + (c1.clones - c0.clones);
        if p.nontrivial {
            cx.rep.nontrivial_steps += 1;
            cx.rep.op_nontrivial[p.r.op as usize] += 1;
        }
        if m1.relocations > m0.relocations && before_snaps.iter().any(|s| s.exists && s.len > 0) {
            cx.rep.probes |= P_RELOC_WITH_LIVE;
        }
        cx.rep.relocations += m1.relocations - m0.relocations;
        if p.always_relaxed {
            cx.rep.faults_fired[p.relax_kind as usize] += 1;
        }
        if self_on_stack_only(&p, &cx.info) && cx.opts.alloc_monitor && (a1.allocs + a1.reallocs > a0.allocs + a0.reallocs) {
            return Err(cx.viol(
                Class::HeapUseOnStack,
                step,
                Some(&p),
                fired,
                format!("{} heap allocation(s) during an operation that only involves stack-backed vectors", a1.allocs + a1.reallocs - a0.allocs - a0.reallocs),
            ));
        }
        cx.h.u64(p.r.op as u64 | (p.r.slot as u64) << 8 | (p.r.kind as u64) << 16 | (p.r.via as u64) << 24 | (p.r.sink as u64) << 32);
        cx.h.u64(p.r.i as u64);
        cx.h.u64(p.r.j as u64);
        hash_ev(&mut cx.h, &obs);
        for s in 0..3 {
            let sn = cx.snaps[s].clone();
            hash_snap(&mut cx.h, &sn);
            cx.rep.max_len = cx.rep.max_len.max(sn.len);
        }
        if cx.opts.trace {
            let mb = model_before.unwrap();
            cx.rep.trace.push(format!(
                "#{} {:?}\n     before {} {} {}\n     observed {} expected {}{}\n     after  {} {} {} caps {:?}",
                si,
                p.r,
                short_tags(mb.vecs[0].as_ref().map(|v| &v.tags[..]).unwrap_or(&[])),
                short_tags(mb.vecs[1].as_ref().map(|v| &v.tags[..]).unwrap_or(&[])),
                short_tags(mb.vecs[2].as_ref().map(|v| &v.tags[..]).unwrap_or(&[])),
                short_ev(&obs),
                short_ev(&p.ev),
                if fired != 0 { format!(" FAULT {}", FAULT_NAMES[fired as usize]) } else { String::new() },
                short_tags(&cx.snaps[0].tags),
                short_tags(&cx.snaps[1].tags),
                short_tags(&cx.snaps[2].tags),
                [cx.snaps[0].cap, cx.snaps[1].cap, cx.snaps[2].cap],
            ));
        }
        if obs.iter().any(|e| *e == Ev::Unsupported) {
            // a problem of the harness (a panic of its own code, or a step variant this world cannot
            // run) is never a verdict on the library, under any oracle
            let diag = cx.world.take_diag();
            return Err(cx.viol(Class::Unsupported, step, Some(&p), 0, format!("harness: step variant not supported in this world, or harness panic: {} {:?}", diag, p.r)));
        }
        // abstract state: (lengths, capacity class)
        {
            let mut hs = LogHash::new();
            for s in 0..3 {
                let sn = &cx.snaps[s];
                hs.u64(sn.exists as u64);
                hs.u64(sn.len.min(40) as u64);
                let cls = if sn.cap == sn.len { 0 } else if sn.cap < 2 * sn.len.max(1) { 1 } else { 2 };
                hs.u64(cls);
            }
            hs.u64(p.r.op as u64);
            cx.rep.abstract_states.push(hs.0);
        }

        if fired != 0 || p.always_relaxed {
            let tag = if fired != 0 { fired } else { p.relax_kind };
            if fired != 0 && planned != 0 {
                // last-of-N probe
                let n = match fired {
                    F_DROP_PANIC => drop_k,
                    F_CLONE_PANIC => clone_k,
                    _ => 0,
                };
                if n > 1 {
                    cx.rep.probes |= P_FAULT_LAST_OF_N;
                }
            }
            if p.must_panic && !obs.iter().any(|e| *e == Ev::Panic) {
                let mut v = cx.viol(Class::EvMismatch, step, Some(&p), tag, format!("observed {:?}, model expects {:?}: the operation had to be rejected by a panic", short_ev(&obs), short_ev(&p.ev)));
                v.panic_involved = true;
                return Err(v);
            }
            cx.check_relaxed(step, &p, tag)?;
        } else {
            let panicked = obs.last() == Some(&Ev::Panic);
            let built = (m1.builds + m1.builds_sized) - (m0.builds + m0.builds_sized);
            // collect every symptom of the step: re-run the strict checks with the classes found so
            // far masked; the property being checked reports the first one it owns
            let mut found: Vec<Violation> = Vec::new();
            cx.skip = 0;
            for _ in 0..10 {
                let r = strict_all(cx, step, &p, &obs, &before_snaps, m0, a0, panicked, built);
                match r {
                    Ok(()) => break,
                    // a problem of the harness is never a verdict on the library: report it alone
                    Err(v) if v.class == Class::Unsupported => {
                        cx.skip = 0;
                        return Err(v);
                    }
                    Err(v) => {
                        cx.skip |= 1u64 << (v.class as u64);
                        found.push(v);
                    }
                }
            }
            cx.skip = 0;
            if !found.is_empty() {
                let prop = cx.opts.prop.clone();
                let pos = found.iter().position(|v| crate::profiles::owned(&prop, v)).unwrap_or(0);
                return Err(found.swap_remove(pos));
            }
        }
    }
    Ok(())
}

#[allow(clippy::too_many_arguments)]
fn strict_all(cx: &mut Ctx, step: i32, p: &Pred, obs: &[Ev], before: &[Snap; 3], m0: env::MemCounters, a0: simalloc::AllocCounters, panicked: bool, built: u64) -> Result<(), Violation> {
    cx.check_strict(step, p, obs)?;
    if !panicked && built != p.builds as u64 {
        cx.emit(cx.viol(
            Class::MemEnv,
            step,
            Some(p),
            0,
            format!("storage was requested from the back end {} time(s) in this step, expected {} (once per vector instance)", built, p.builds),
        ))?;
    }
    cx.cap_post(step, p, before, m0, a0, panicked)
}

fn self_on_stack_only(p: &Pred, info: &WorldInfo) -> bool {
    if p.r.op == Op::Nop {
        return false;
    }
    let t = touched_slots(p);
    let mut any = false;
    for s in 0..3 {
        if t[s] {
            any = true;
            if !info.be_of(s).on_stack() {
                return false;
            }
        }
    }
    any
}
