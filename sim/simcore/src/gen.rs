//! Scenario generator: a pure function (batch seed, run index, profile, world
//! table) -> scenario. Swarm style (per-run subsets of step kinds, length
//! regime, environment policy) and stratified (run i visits focus tuple
//! i mod N on world (i / N) mod W with length / index classes cycling behind).

use crate::model::{Model, HUGE};
use crate::rng::{mix, Rng};
use crate::types::*;

#[derive(Clone, Copy, Debug, PartialEq, Eq, Hash)]
pub struct Focus {
    pub op: Op,
    pub kind: u8,
    pub via: u8,
    pub sink: u8,
    pub form: u8,
}

#[derive(Clone)]
pub struct Profile {
    pub prop: &'static str,
    /// weights of ops for random (non-focus) steps
    pub ops: Vec<(Op, u32)>,
    pub focus: Vec<Focus>,
    pub steps: (usize, usize),
    pub allow_forget: bool,
    /// allow splices / pushes beyond a fixed capacity in random steps
    pub allow_overflow: bool,
    pub allow_invalid: bool,
    pub world_ok: fn(&WorldInfo) -> bool,
    /// length regimes (upper bounds) with weights
    pub regimes: Vec<(usize, u32)>,
    pub free_place: bool,
    pub huge_args: bool,
}

pub const LEN_CLASSES: [usize; 9] = [0, 1, 2, 3, 5, 8, 17, 40, 130];
/// special length classes relative to a fixed capacity
pub const LC_CAP_MINUS_1: usize = usize::MAX - 1;
pub const LC_CAP: usize = usize::MAX;

pub struct Generated {
    pub scn: Scenario,
    pub focus_step: Option<usize>,
    pub focus: Option<Focus>,
}

struct G<'a> {
    rng: Rng,
    prof: &'a Profile,
    model: Model,
    steps: Vec<Step>,
    op_w: Vec<(Op, u32)>,
    via_w: [u32; 3],
    regime: usize,
}

fn caps_for(model: &Model) -> [usize; 3] {
    let mut c = [0usize; 3];
    for s in 0..3 {
        c[s] = model.fixed_cap(s).unwrap_or(model.len(s) + 8);
    }
    c
}

impl<'a> G<'a> {
    fn push(&mut self, st: Step) {
        let caps = caps_for(&self.model);
        let _ = self.model.apply(&st, caps);
        self.steps.push(st);
    }
    fn len(&self, s: usize) -> usize {
        self.model.len(s)
    }
    fn room(&self, s: usize) -> usize {
        match self.model.fixed_cap(s) {
            Some(c) => c.saturating_sub(self.len(s)),
            None => usize::MAX,
        }
    }
    fn pick_idx(&mut self, len: usize, allow_oor: bool) -> u64 {
        // in-range mostly, boundary-heavy
        let r = self.rng.below(100);
        if allow_oor && self.prof.allow_invalid && r < 5 {
            return (len + 1) as u64; // interpreted modulo len+2 => len+1
        }
        if allow_oor && self.prof.allow_invalid && self.prof.huge_args && r < 7 {
            return HUGE + self.rng.below(4);
        }
        match r % 6 {
            0 => 0,
            1 => len.saturating_sub(1) as u64,
            2 => len as u64,
            3 => (len / 2) as u64,
            _ => self.rng.below(len as u64 + 1),
        }
    }
    fn via(&mut self) -> u8 {
        self.rng.weighted(&self.via_w) as u8
    }
    fn script(&mut self, range_len: usize, max_sinks: &[u8]) -> Vec<u8> {
        let n = match self.rng.below(6) {
            0 => 0,
            1 => range_len.min(20),
            2 => 1,
            _ => self.rng.usize_below(range_len.min(10) + 3),
        };
        let pat = self.rng.below(4);
        (0..n)
            .map(|k| {
                let back = match pat {
                    0 => false,
                    1 => true,
                    2 => k % 2 == 1,
                    _ => self.rng.chance(1, 2),
                } as u8;
                let sink = *self.rng.pick(max_sinks);
                back | (sink << 1)
            })
            .collect()
    }
    fn item_sinks(&self) -> Vec<u8> {
        let mut v = vec![ITEM_DROP, ITEM_DROP, ITEM_KEEP, ITEM_MOVE, ITEM_MOVE_INSERT, ITEM_LAZY, ITEM_MUTATE, ITEM_INSPECT];
        if self.prof.allow_forget {
            v.push(ITEM_FORGET);
        }
        v
    }

    fn range_raw(&mut self, len: usize) -> (u64, u64) {
        let r = self.rng.below(100);
        if self.prof.allow_invalid && r < 6 {
            // invalid around the boundary
            return match self.rng.below(4) {
                0 => ((len / 2 + 1) as u64, (len / 2) as u64),
                1 => (0, (len + 1) as u64),
                2 => ((len + 1) as u64, (len + 1) as u64),
                _ => {
                    if self.prof.huge_args {
                        (self.rng.below(len as u64 + 1), HUGE)
                    } else {
                        (len as u64 + 1, len as u64)
                    }
                }
            };
        }
        let (s, e) = match r % 8 {
            0 => (0, len),
            1 => (0, 0),
            2 => (len, len),
            3 => (len.saturating_sub(1), len),
            4 => (0, len.min(1)),
            _ => {
                let s = self.rng.usize_below(len + 1);
                let e = s + self.rng.usize_below(len - s + 1);
                (s, e)
            }
        };
        (s as u64, e as u64)
    }

    /// adapt raw (s,e) to the range form so that the *meaning* stays s..e where possible
    fn range_for_form(&self, form: u8, s: u64, e: u64, len: usize) -> (u64, u64) {
        if s >= HUGE || e >= HUGE {
            return (s, e);
        }
        let inc_end = matches!(form % 9, 1 | 3 | 6);
        let exc_start = matches!(form % 9, 6 | 7 | 8);
        let mut a = s;
        let mut b = e;
        if inc_end {
            if b == 0 {
                // `..=x` cannot express an empty range at 0; keep it valid: 0..=0
                b = 0;
            } else {
                b -= 1;
            }
        }
        if exc_start {
            if a == 0 {
                // Excluded(0) == start 1
                a = 0;
            } else {
                a -= 1;
            }
        }
        let _ = len;
        (a, b)
    }

    fn rand_step(&mut self) -> Step {
        let slot = self.rng.usize_below(3);
        let len = self.len(slot);
        // keep lengths inside the regime
        let op = if len > self.regime {
            *self.rng.pick(&[Op::Take, Op::Take, Op::Drain, Op::Clear, Op::Drain])
        } else {
            let w: Vec<u32> = self.op_w.iter().map(|x| x.1).collect();
            self.op_w[self.rng.weighted(&w)].0
        };
        self.make(op, slot)
    }

    fn make(&mut self, op: Op, slot: usize) -> Step {
        let mut st = Step::new(op);
        st.slot = slot as u8;
        st.other = ((slot + 1 + self.rng.usize_below(2)) % 3) as u8;
        let other = st.other as usize;
        let len = self.len(slot);
        let olen = self.len(other);
        st.via = self.via();
        match op {
            Op::New => {
                st.form = self.rng.below(2) as u8;
                st.n = self.rng.below(20) as u32;
                st.a = self.rng.below(128);
            }
            Op::DropVec | Op::Clear => {}
            Op::Put => {
                st.form = self.rng.below(2) as u8;
                const W: [u32; 12] = [30, 14, 5, 5, 7, 8, 7, 6, 4, 4, 5, 3];
                st.kind = self.rng.weighted(&W) as u8;
                st.a = self.pick_idx(len, true);
                st.b = match st.kind {
                    SRC_REMOVE | SRC_SWAP_REMOVE | SRC_LAZY_REF | SRC_LAZY_MUT | SRC_LAZY_HANDLE | SRC_LAZY_LAZY => {
                        if olen == 0 {
                            0
                        } else if self.prof.allow_invalid && self.rng.chance(1, 25) {
                            olen as u64
                        } else {
                            self.rng.below(olen as u64)
                        }
                    }
                    _ => 0,
                };
                if !self.prof.allow_overflow && self.room(slot) == 0 {
                    // full fixed vector: put would panic - allowed only sometimes
                    if !self.prof.allow_invalid || self.rng.chance(3, 4) {
                        return self.make(Op::Take, slot);
                    }
                }
            }
            Op::Take => {
                st.kind = self.rng.below(3) as u8;
                st.form = self.rng.below(4) as u8;
                let mut sinks: Vec<u8> = vec![
                    SINK_DROP, SINK_DROP, SINK_DOWNCAST_KEEP, SINK_DOWNCAST_DROP, SINK_DOWNCAST_WRONG, SINK_MOVE_PUSH, SINK_MOVE_INSERT,
                    SINK_MUTATE, SINK_LAZY, SINK_SWAP, SINK_INSPECT,
                ];
                if self.prof.allow_forget {
                    sinks.push(SINK_FORGET);
                }
                st.sink = *self.rng.pick(&sinks);
                st.a = if len == 0 {
                    0
                } else if self.prof.allow_invalid && self.rng.chance(1, 20) {
                    len as u64
                } else {
                    let r = self.rng.below(5);
                    match r {
                        0 => 0,
                        1 => (len - 1) as u64,
                        _ => self.rng.below(len as u64),
                    }
                };
                st.b = self.pick_idx(olen, true);
                st.n = self.rng.below(4) as u32;
                if matches!(st.sink, SINK_MOVE_PUSH | SINK_MOVE_INSERT | SINK_LAZY) && self.room(other) < 3 && !self.prof.allow_invalid {
                    st.sink = SINK_DROP;
                }
            }
            Op::Drain | Op::Splice => {
                st.form = self.rng.below(9) as u8;
                let (s, e) = self.range_raw(len);
                let (a, b) = self.range_for_form(st.form, s, e, len);
                st.a = a;
                st.b = b;
                let rl = if e >= s && e < HUGE { (e - s) as usize } else { 0 };
                let sinks = self.item_sinks();
                st.script = self.script(rl, &sinks);
                st.sink = if self.prof.allow_forget && self.rng.chance(1, 6) { END_FORGET } else { END_DROP };
                if op == Op::Splice {
                    st.kind = self.rng.below(REPL_KINDS as u64) as u8;
                    let mut n = self.rng.below(7) as usize;
                    if !self.prof.allow_overflow {
                        let tail_head = len - rl.min(len);
                        let room = match self.model.fixed_cap(slot) {
                            Some(c) => c.saturating_sub(tail_head),
                            None => usize::MAX,
                        };
                        n = n.min(room);
                    }
                    st.n = n as u32;
                    st.c = self.rng.below(olen as u64 + 1);
                }
            }
            Op::Get => {
                st.kind = self.rng.below(GET_KINDS as u64) as u8;
                st.a = self.pick_idx(len, true);
            }
            Op::Iter => {
                st.kind = self.rng.below(IT_KINDS as u64) as u8;
                let n = self.rng.usize_below(len.min(12) + 4);
                st.script = (0..n).map(|_| *self.rng.pick(&[0u8, 0, 0, 1, 1, 1, 2, 3, 4, 4, 200, 203, 206, 209, 215, 201, 204, 207, 213, 202])).collect();
            }
            Op::Cap => {
                st.kind = self.rng.below(4) as u8;
                st.a = if self.prof.huge_args && self.rng.chance(1, 8) {
                    // usize::MAX - k with k around the overflow boundary len + n == usize::MAX + 1
                    let k = match self.rng.below(6) {
                        0 => 0,
                        1 => len.saturating_sub(1) as u64,
                        2 => len as u64,
                        3 => len as u64 + 1,
                        4 => 1,
                        _ => self.rng.below(0x100),
                    };
                    HUGE + (k & 0xff)
                } else {
                    self.rng.below(len as u64 + 12)
                };
            }
            Op::CloneVec | Op::CloneEmpty | Op::CloneEmptyIn => {
                st.a = self.rng.below(128);
            }
            Op::MoveVec => st.a = self.rng.below(128),
            Op::RawTrip => st.form = self.rng.below(4) as u8,
            Op::Views => st.n = self.rng.below(5) as u32,
            Op::Mutate => {
                st.kind = self.rng.below(MUT_KINDS as u64) as u8;
                st.a = self.rng.below(len.max(1) as u64);
            }
            Op::Swap => {
                st.kind = self.rng.below(SWP_KINDS as u64) as u8;
                st.form = self.rng.below(2) as u8;
                st.a = self.rng.below(len.max(1) as u64);
                st.b = self.rng.below(olen.max(1) as u64);
            }
            Op::Lazy => {
                st.kind = self.rng.below(4) as u8;
                st.form = self.rng.below(3) as u8;
                st.sink = self.rng.below(4) as u8;
                st.n = self.rng.below(4) as u32;
                st.a = self.rng.below(len.max(1) as u64);
            }
            Op::PushRun => {
                st.n = self.rng.below(40) as u32;
                st.via = self.rng.below(3) as u8;
            }
            Op::TypeProbe => {
                st.kind = self.rng.below(TP_KINDS as u64) as u8;
                st.form = self.rng.below(2) as u8;
                st.sink = self.rng.below(9) as u8; // range form of the splice probe
                let (s, e) = self.range_raw(len);
                let (a, b) = self.range_for_form(st.sink, s, e, len);
                st.a = a;
                st.b = b;
                if st.kind != TP_SPLICE {
                    st.a = self.rng.below(len as u64 + 1);
                }
                st.n = self.rng.below(4) as u32;
                st.c = self.rng.below(4);
            }
            Op::Nop => {}
        }
        st
    }

    /// bring `slot` to length `target` with cheap steps
    fn reach(&mut self, slot: usize, target: usize) {
        let len = self.len(slot);
        if len > target {
            if target == 0 {
                let mut st = Step::new(Op::Clear);
                st.slot = slot as u8;
                st.via = self.rng.below(2) as u8;
                self.push(st);
            } else {
                let mut st = Step::new(Op::Drain);
                st.slot = slot as u8;
                st.form = 4; // s..
                st.a = target as u64;
                self.push(st);
            }
        }
        let len = self.len(slot);
        if len < target {
            let need = target - len;
            if need > 6 || self.rng.chance(1, 3) {
                let mut st = Step::new(Op::PushRun);
                st.slot = slot as u8;
                st.n = need as u32;
                st.via = self.rng.below(3) as u8;
                self.push(st);
            } else {
                for _ in 0..need {
                    let mut st = Step::new(Op::Put);
                    st.slot = slot as u8;
                    st.kind = *self.rng.pick(&[SRC_WRAPPER, SRC_RAW, SRC_WRAPPER, SRC_TYPELESS]);
                    st.via = self.rng.below(3) as u8;
                    st.form = self.rng.below(2) as u8;
                    st.a = self.rng.below(self.len(slot) as u64 + 1);
                    self.push(st);
                }
            }
        }
    }
}

fn resolve_len_class(lc: usize, cap: Option<usize>) -> usize {
    match (lc, cap) {
        (LC_CAP, Some(c)) => c.min(600),
        (LC_CAP_MINUS_1, Some(c)) => c.min(600).saturating_sub(1),
        (LC_CAP, None) => 9,
        (LC_CAP_MINUS_1, None) => 4,
        (l, Some(c)) => l.min(c),
        (l, None) => l,
    }
}

/// Index classes for the focus step: 0, 1, mid, len-1, len, len+1
fn idx_class(k: usize, len: usize) -> u64 {
    (match k % 6 {
        0 => 0,
        1 => 1.min(len),
        2 => len / 2,
        3 => len.saturating_sub(1),
        4 => len,
        _ => len + 1,
    }) as u64
}

pub fn generate(batch_seed: u64, index: u64, prof: &Profile, worlds: &[WorldInfo]) -> Generated {
    let seed = mix(batch_seed, index);
    let mut rng = Rng::new(seed);
    let eligible: Vec<&WorldInfo> = worlds.iter().filter(|w| (prof.world_ok)(w)).collect();
    assert!(!eligible.is_empty(), "no world eligible for profile {}", prof.prop);
    let nf = prof.focus.len().max(1) as u64;
    let nw = eligible.len() as u64;
    let world = eligible[((index / nf) % nw) as usize];
    let focus = if prof.focus.is_empty() { None } else { Some(prof.focus[(index % nf) as usize]) };
    let cls = index / (nf * nw);

    // swarm: per-run subset of op kinds (each kept with probability 3/4), via mix, regime, policy
    let mut op_w: Vec<(Op, u32)> = prof.ops.iter().filter(|_| rng.chance(3, 4)).cloned().collect();
    if op_w.is_empty() {
        op_w = prof.ops.clone();
    }
    let via_w = match rng.below(5) {
        0 => [1, 0, 0],
        1 => [0, 1, 0],
        2 => [2, 1, 1],
        3 => [1, 1, 2],
        _ => [3, 2, 1],
    };
    let rw: Vec<u32> = prof.regimes.iter().map(|x| x.1).collect();
    let regime = prof.regimes[rng.weighted(&rw)].0;
    let policy = EnvPolicy {
        relocate: rng.below(3) as u8,
        over_expand: rng.below(3) as u8,
        over_exact: rng.below(2) as u8,
        realloc_moves: 1,
        salt: rng.below(1 << 20) as u32,
    };
    let place = [rng.below(128) as u8, rng.below(128) as u8, rng.below(128) as u8];
    let mut g = G { rng, prof, model: Model::new(world.clone()), steps: Vec::new(), op_w, via_w, regime };

    let n_steps = g.rng.range(prof.steps.0 as u64, prof.steps.1 as u64) as usize;
    let mut focus_step = None;
    if let Some(f) = focus {
        // prefix: reach the length class on the focus slot, some content elsewhere
        // (tuple, world) are stratified by the run index; slot, length class and index class are
        // drawn from the run's PRNG so that every class is hit at any batch size
        let _ = cls;
        let slot = g.rng.usize_below(3);
        let lc_list: Vec<usize> = {
            let mut v = LEN_CLASSES.to_vec();
            v.push(LC_CAP);
            v.push(LC_CAP_MINUS_1);
            v
        };
        let lc = lc_list[g.rng.usize_below(lc_list.len())];
        let ic = g.rng.usize_below(6);
        let pre = g.rng.usize_below(4);
        for _ in 0..pre {
            let st = g.rand_step();
            g.push(st);
        }
        if !g.model.exists(slot) {
            let mut st = Step::new(Op::New);
            st.slot = slot as u8;
            g.push(st);
        }
        let target = resolve_len_class(lc, g.model.fixed_cap(slot)).min(regime.max(40));
        g.reach(slot, target);
        let other = (slot + 1 + g.rng.usize_below(2)) % 3;
        if g.model.exists(other) {
            let want = g.rng.usize_below(6);
            let t = resolve_len_class(want, g.model.fixed_cap(other));
            if g.len(other) < t {
                g.reach(other, t);
            }
        }
        if f.op == Op::RawTrip && world.size == 0 && world.be_of(slot).resizable() && g.rng.chance(1, 2) {
            // zero-sized elements: a capacity above isize::MAX elements is legal and must survive the trip
            let mut c = g.make(Op::Cap, slot);
            c.kind = if g.rng.chance(1, 2) { CAP_RESERVE } else { CAP_RESERVE_EXACT };
            c.a = HUGE + ((g.len(slot) as u64 + g.rng.below(3)) & 0xff);
            g.push(c);
        }
        // the focus step
        let mut st = g.make(f.op, slot);
        st.kind = f.kind;
        st.via = f.via;
        st.sink = f.sink;
        if matches!(f.op, Op::Put | Op::RawTrip | Op::Swap | Op::Lazy | Op::New | Op::TypeProbe) || matches!(f.op, Op::Drain | Op::Splice) {
            if !matches!(f.op, Op::Drain | Op::Splice) || f.form != 255 {
                st.form = f.form;
            }
        }
        st.other = other as u8;
        let len = g.len(slot);
        match f.op {
            Op::Put | Op::Get => {
                let a = idx_class(ic, len);
                st.a = if !prof.allow_invalid && a > len as u64 { len as u64 } else { a };
                if f.op == Op::Get && !prof.allow_invalid && st.a >= len as u64 && len > 0 {
                    st.a = (len - 1) as u64;
                }
                let olen = g.len(other);
                st.b = if olen == 0 { 0 } else { g.rng.below(olen as u64) };
            }
            Op::Take | Op::Mutate | Op::Swap | Op::Lazy => {
                let a = idx_class(ic, len);
                st.a = if len == 0 {
                    0
                } else if a >= len as u64 {
                    if prof.allow_invalid && f.op == Op::Take && a == len as u64 {
                        a
                    } else {
                        (len - 1) as u64
                    }
                } else {
                    a
                };
            }
            Op::Drain | Op::Splice => {
                // re-derive the bounds for the focus form
                let (s, e) = g.range_raw(len);
                let (a, b) = g.range_for_form(st.form, s, e, len);
                st.a = a;
                st.b = b;
            }
            _ => {}
        }
        if f.op == Op::PushRun && f.form == 1 {
            // long push runs only where growth is amortised by contract: Heap, or the simulated
            // back end under its doubling policy (an exact-growth back end would reallocate and
            // be quarantined 2^16 times)
            let be = world.be_of(slot);
            let amortised = be.kind == BeKind::Heap || (be.kind == BeKind::Sim && policy.over_expand == 2);
            st.n = if amortised { 1024u32 << g.rng.below(5) } else { 64 + g.rng.below(300) as u32 };
            st.via = g.rng.below(3) as u8;
        }
        if f.op == Op::Cap && prof.huge_args && g.rng.chance(1, 3) {
            let k = *g.rng.pick(&[0u64, 1, len.saturating_sub(1) as u64, len as u64, len as u64 + 1]);
            st.a = HUGE + (k & 0xff);
        }
        focus_step = Some(g.steps.len());
        g.push(st);
    }
    while g.steps.len() < n_steps || focus_step.map(|f| g.steps.len() < f + 6).unwrap_or(false) {
        let st = g.rand_step();
        g.push(st);
    }
    let scn = Scenario { world: world.id, seed, policy, place, steps: g.steps, faults: Vec::new() };
    Generated { scn, focus_step, focus }
}
