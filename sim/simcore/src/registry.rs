//! Identity registry of simulated element values, library-scope flag, and the
//! fault fuses for user code called back by the library (element Drop / Clone).
//!
//! Everything here is thread-local and allocation-free on the hot path (the
//! tables are pre-sized by `reset`), because it is called from inside `Drop`
//! and `Clone` of elements, i.e. from inside library operations.

use std::cell::{Cell, UnsafeCell};

pub const INVALID_TAG: u64 = u64::MAX;

/// Payload of every injected panic, so that the harness can tell its own
/// injected faults from library panics.
#[derive(Debug, Clone, Copy, PartialEq, Eq)]
pub struct Injected(pub &'static str);

pub struct Reg {
    counts: UnsafeCell<Vec<i32>>,
    pub drops_total: Cell<u64>,
    pub clones_total: Cell<u64>,
    /// drop of a value whose tag has live count 0 (double drop)
    pub double_drops: Cell<u64>,
    /// drop of a value whose bytes do not decode to a tag (garbage / torn / poison)
    pub garbage_drops: Cell<u64>,
    /// clone of a value whose bytes do not decode
    pub garbage_clones: Cell<u64>,
    /// fuse-eligible invocations (inside library scope, not while panicking)
    pub lib_drops: Cell<u64>,
    pub lib_clones: Cell<u64>,
    drop_fuse: Cell<u64>,
    clone_fuse: Cell<u64>,
    pub fired_drop: Cell<u32>,
    pub fired_clone: Cell<u32>,
    pub first_bad_tag: Cell<u64>,
}

thread_local! {
    static REG: Reg = Reg {
        counts: UnsafeCell::new(Vec::new()),
        drops_total: Cell::new(0), clones_total: Cell::new(0),
        double_drops: Cell::new(0), garbage_drops: Cell::new(0), garbage_clones: Cell::new(0),
        lib_drops: Cell::new(0), lib_clones: Cell::new(0),
        drop_fuse: Cell::new(0), clone_fuse: Cell::new(0),
        fired_drop: Cell::new(0), fired_clone: Cell::new(0),
        first_bad_tag: Cell::new(INVALID_TAG),
    };
    static LIB_SCOPE: Cell<bool> = const { Cell::new(false) };
    static STEP_ACTIVE: Cell<bool> = const { Cell::new(false) };
}

/// True while a world executes a step (set around its catch_unwind). Library handles that are
/// dropped by unwinding run outside every `lib()` scope; allocations they make are still the
/// library's and must be tracked by the allocator monitor.
#[inline]
pub fn in_step() -> bool {
    STEP_ACTIVE.with(|c| c.get())
}
pub struct StepGuard(bool);
impl Drop for StepGuard {
    #[inline]
    fn drop(&mut self) {
        STEP_ACTIVE.with(|c| c.set(self.0));
    }
}
/// Harness work done in the middle of a step (the panic hook inspecting the call stack): its
/// allocations are nobody's but the harness's.
#[inline]
pub fn suspend_step() -> StepGuard {
    StepGuard(STEP_ACTIVE.with(|c| c.replace(false)))
}
#[inline]
pub fn enter_step() -> StepGuard {
    StepGuard(STEP_ACTIVE.with(|c| c.replace(true)))
}

#[inline]
pub fn in_lib() -> bool {
    LIB_SCOPE.with(|c| c.get())
}

pub struct ScopeGuard(bool);
impl Drop for ScopeGuard {
    #[inline]
    fn drop(&mut self) {
        LIB_SCOPE.with(|c| c.set(self.0));
    }
}
#[inline]
pub fn enter_lib() -> ScopeGuard {
    ScopeGuard(LIB_SCOPE.with(|c| c.replace(true)))
}
#[inline]
pub fn enter_harness() -> ScopeGuard {
    ScopeGuard(LIB_SCOPE.with(|c| c.replace(false)))
}
/// Run a library API call: the only code during which fuses may fire and
/// allocations are attributed to the library.
#[inline]
pub fn lib<R>(f: impl FnOnce() -> R) -> R {
    let _g = enter_lib();
    f()
}
/// Run harness code that happens to be nested inside a library call
/// (simulated user callbacks doing their own bookkeeping).
#[inline]
pub fn harness<R>(f: impl FnOnce() -> R) -> R {
    let _g = enter_harness();
    f()
}

pub fn reset(tag_space: usize) {
    let _h = enter_harness();
    REG.with(|r| {
        let v = unsafe { &mut *r.counts.get() };
        v.clear();
        v.resize(tag_space, 0);
        r.drops_total.set(0);
        r.clones_total.set(0);
        r.double_drops.set(0);
        r.garbage_drops.set(0);
        r.garbage_clones.set(0);
        r.lib_drops.set(0);
        r.lib_clones.set(0);
        r.drop_fuse.set(0);
        r.clone_fuse.set(0);
        r.fired_drop.set(0);
        r.fired_clone.set(0);
        r.first_bad_tag.set(INVALID_TAG);
    });
}

/// A value with drop glue came into existence (harness `make`, or `Clone`).
#[inline]
pub fn on_make(tag: u64) {
    REG.with(|r| {
        let v = unsafe { &mut *r.counts.get() };
        if (tag as usize) < v.len() {
            v[tag as usize] += 1;
        }
    });
}

/// Called from `Drop` of element types with drop glue. `tag` is INVALID_TAG
/// when the bytes did not decode.
#[inline]
pub fn on_drop(tag: u64) {
    REG.with(|r| {
        r.drops_total.set(r.drops_total.get() + 1);
        let v = unsafe { &mut *r.counts.get() };
        if tag == INVALID_TAG || (tag as usize) >= v.len() {
            r.garbage_drops.set(r.garbage_drops.get() + 1);
        } else if v[tag as usize] <= 0 {
            r.double_drops.set(r.double_drops.get() + 1);
            if r.first_bad_tag.get() == INVALID_TAG {
                r.first_bad_tag.set(tag);
            }
        } else {
            v[tag as usize] -= 1;
        }
        // fuse: only for invocations made by the library, never during unwinding
        if in_lib() && !std::thread::panicking() {
            let n = r.lib_drops.get() + 1;
            r.lib_drops.set(n);
            if r.drop_fuse.get() == n {
                r.drop_fuse.set(0);
                r.fired_drop.set(r.fired_drop.get() + 1);
                std::panic::panic_any(Injected("drop"));
            }
        }
    });
}

/// Called from `Clone` of element types *before* the copy is made.
/// `counted`: whether the type has drop glue (then the clone is registered).
#[inline]
pub fn on_clone(tag: u64, counted: bool) {
    REG.with(|r| {
        r.clones_total.set(r.clones_total.get() + 1);
        if in_lib() && !std::thread::panicking() {
            let n = r.lib_clones.get() + 1;
            r.lib_clones.set(n);
            if r.clone_fuse.get() == n {
                r.clone_fuse.set(0);
                r.fired_clone.set(r.fired_clone.get() + 1);
                std::panic::panic_any(Injected("clone"));
            }
        }
        if tag == INVALID_TAG {
            r.garbage_clones.set(r.garbage_clones.get() + 1);
        } else if counted {
            let v = unsafe { &mut *r.counts.get() };
            if (tag as usize) < v.len() {
                v[tag as usize] += 1;
            }
        }
    });
}

/// Arm the fuses relative to *now*: the k-th eligible invocation from now on
/// panics (k = 0 disarms).
pub fn arm(drop_k: u64, clone_k: u64) {
    REG.with(|r| {
        r.drop_fuse.set(if drop_k == 0 { 0 } else { r.lib_drops.get() + drop_k });
        r.clone_fuse.set(if clone_k == 0 { 0 } else { r.lib_clones.get() + clone_k });
    });
}
pub fn disarm() {
    REG.with(|r| {
        r.drop_fuse.set(0);
        r.clone_fuse.set(0);
    });
}

#[derive(Clone, Copy, Debug, Default, PartialEq, Eq)]
pub struct Counters {
    pub drops: u64,
    pub clones: u64,
    pub double_drops: u64,
    pub garbage_drops: u64,
    pub garbage_clones: u64,
    pub lib_drops: u64,
    pub lib_clones: u64,
    pub fired_drop: u32,
    pub fired_clone: u32,
}
pub fn counters() -> Counters {
    REG.with(|r| Counters {
        drops: r.drops_total.get(),
        clones: r.clones_total.get(),
        double_drops: r.double_drops.get(),
        garbage_drops: r.garbage_drops.get(),
        garbage_clones: r.garbage_clones.get(),
        lib_drops: r.lib_drops.get(),
        lib_clones: r.lib_clones.get(),
        fired_drop: r.fired_drop.get(),
        fired_clone: r.fired_clone.get(),
    })
}
pub fn first_bad_tag() -> u64 {
    REG.with(|r| r.first_bad_tag.get())
}
/// live count of one tag
pub fn live(tag: u64) -> i32 {
    REG.with(|r| {
        let v = unsafe { &*r.counts.get() };
        v.get(tag as usize).copied().unwrap_or(0)
    })
}
/// Compare against the model's expected live counts. Returns first differing
/// (tag, expected, actual).
pub fn diff_counts(expected: &[i32]) -> Option<(u64, i32, i32)> {
    REG.with(|r| {
        let v = unsafe { &*r.counts.get() };
        let n = expected.len().max(v.len());
        for i in 0..n {
            let e = expected.get(i).copied().unwrap_or(0);
            let a = v.get(i).copied().unwrap_or(0);
            if e != a {
                return Some((i as u64, e, a));
            }
        }
        None
    })
}
pub fn total_live() -> i64 {
    REG.with(|r| {
        let v = unsafe { &*r.counts.get() };
        v.iter().map(|x| *x as i64).sum()
    })
}


// ---- panic hook: silent, and tells harness bugs from library / injected panics ---------------

thread_local! {
    static HARNESS_PANIC: std::cell::RefCell<Option<String>> = const { std::cell::RefCell::new(None) };
}

/// Install the silent hook. A panic raised from a source file under /verif that is
/// neither an injected fault nor marked "LIB:" (an `expect` on a library result) is a
/// bug of the harness itself; it is remembered and reported as a harness error (exit 2),
/// never as a violation.
pub fn install_hook() {
    std::panic::set_hook(Box::new(|info| {
        let in_harness = info.location().map(|l| l.file().contains("/verif/") || l.file().starts_with("sim") || l.file().contains("anysim")).unwrap_or(false);
        if !in_harness {
            return;
        }
        if info.payload().downcast_ref::<Injected>().is_some() {
            return;
        }
        let msg: String = if let Some(s) = info.payload().downcast_ref::<&str>() {
            s.to_string()
        } else if let Some(s) = info.payload().downcast_ref::<String>() {
            s.clone()
        } else {
            "non-string payload".to_string()
        };
        if msg.starts_with("LIB:") || msg.starts_with("ENV:") {
            return;
        }
        let loc = info.location().map(|l| format!("{}:{}", l.file(), l.line())).unwrap_or_default();
        let _h = enter_harness();
        // A location inside the harness is not proof: a library function marked #[track_caller]
        // reports its caller's location, i.e. the harness line that made the call. Ask the call
        // stack (once per location) which code really raised the panic.
        if raised_by_library(&loc) {
            return;
        }
        HARNESS_PANIC.with(|h| {
            let mut h = h.borrow_mut();
            if h.is_none() {
                *h = Some(format!("{} at {}", msg, loc));
            }
        });
    }));
    warm_up_panics();
}
thread_local! {
    static LOC_CACHE: std::cell::RefCell<Vec<(String, bool)>> = const { std::cell::RefCell::new(Vec::new()) };
}
/// True when the innermost frame below the panic machinery that belongs to neither `std`, `core`
/// nor `alloc` is a function of the library. Decided once per reported location.
fn raised_by_library(loc: &str) -> bool {
    if let Some(v) = LOC_CACHE.with(|c| c.borrow().iter().find(|(l, _)| l == loc).map(|(_, v)| *v)) {
        return v;
    }
    let _quiet = suspend_step();
    let bt = std::backtrace::Backtrace::force_capture().to_string();
    let mut past_machinery = false;
    let mut verdict = false;
    for line in bt.lines() {
        let t = line.trim_start();
        // frame lines look like "12: path::to::function"; the "at file:line" lines are skipped
        let sym = match t.split_once(": ") {
            Some((n, rest)) if !n.is_empty() && n.bytes().all(|b| b.is_ascii_digit()) => rest.trim(),
            _ => continue,
        };
        let machinery = sym.contains("panicking") || sym.contains("rust_begin_unwind") || sym.contains("rust_panic") || sym.contains("begin_panic");
        if machinery {
            past_machinery = true;
            continue;
        }
        if !past_machinery {
            continue; // the capture itself and this hook
        }
        let s = sym.trim_start_matches('<');
        if s.starts_with("core::") || s.starts_with("std::") || s.starts_with("alloc::") {
            continue;
        }
        verdict = s.starts_with("any_vec::");
        break;
    }
    LOC_CACHE.with(|c| c.borrow_mut().push((loc.to_string(), verdict)));
    verdict
}

/// The first panic of a process makes the panic runtime initialise itself lazily (it allocates
/// before the thread counts as panicking). Raise and catch one panic of every flavour up front,
/// outside every library scope, so that those one-time allocations are never attributed to a
/// library operation (they were once, in 1 of 27 million runs: DESIGN 10.6 no. 10).
pub fn warm_up_panics() {
    let _h = enter_harness();
    let _ = std::panic::catch_unwind(|| panic!("LIB: warm-up"));
    let _ = std::panic::catch_unwind(|| {
        let n = std::hint::black_box(3);
        panic!("LIB: warm-up {}", n)
    });
    let _ = std::panic::catch_unwind(|| {
        let (a, b) = (std::hint::black_box(1), std::hint::black_box(2));
        assert_eq!(a, b, "LIB: warm-up");
    });
    let _ = std::panic::catch_unwind(|| std::hint::black_box(None::<u8>).expect("LIB: warm-up"));
    let _ = std::panic::catch_unwind(|| std::panic::panic_any(Injected("warm-up")));
    let _ = take_harness_panic();
}

pub fn take_harness_panic() -> Option<String> {
    HARNESS_PANIC.with(|h| h.borrow_mut().take())
}
