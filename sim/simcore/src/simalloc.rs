//! Instrumented global allocator. Only allocations made *by the library*
//! (library-scope flag set, thread not panicking) are tracked: table of
//! block -> layout, guard zones, poison on alloc and free, quarantine of freed
//! blocks, realloc-always-moves policy. Everything else passes straight through
//! to `System`. No allocation is performed by the monitor itself.

use crate::registry::in_lib;
use std::alloc::{GlobalAlloc, Layout, System};
use std::cell::{Cell, UnsafeCell};

pub struct SimAlloc;

const SLOTS: usize = 256;
const G: usize = 64;
const GUARD_BYTE: u8 = 0xF8;
const POISON_NEW: u8 = 0xFA;
const POISON_FREED: u8 = 0xFA;

#[derive(Clone, Copy)]
struct Rec {
    /// bytes of guard zone in front of the data (>= gsz(align))
    pre: usize,
    data: usize,
    size: usize,
    align: usize,
    /// 0 free slot, 1 live, 2 quarantined
    state: u8,
}

#[derive(Clone, Copy, Debug, Default, PartialEq, Eq)]
pub struct AllocCounters {
    pub allocs: u64,
    pub reallocs: u64,
    pub deallocs: u64,
    pub live: u64,
    pub live_bytes: u64,
    /// allocations in library scope while the thread was unwinding (tracked, but not counted as library requests)
    pub untracked_in_lib: u64,
}

struct State {
    recs: UnsafeCell<[Rec; SLOTS]>,
    enabled: Cell<bool>,
    realloc_moves: Cell<bool>,
    live: Cell<u64>,
    used: Cell<usize>,
    c: UnsafeCell<AllocCounters>,
    /// first violation: code, a, b
    viol: Cell<(u32, usize, usize)>,
}

thread_local! {
    static ST: State = const { State {
        recs: UnsafeCell::new([Rec { pre: 0, data: 0, size: 0, align: 0, state: 0 }; SLOTS]),
        enabled: Cell::new(false),
        realloc_moves: Cell::new(true),
        live: Cell::new(0),
        used: Cell::new(0),
        c: UnsafeCell::new(AllocCounters { allocs: 0, reallocs: 0, deallocs: 0, live: 0, live_bytes: 0, untracked_in_lib: 0 }),
        viol: Cell::new((0, 0, 0)),
    } };
}

pub const V_INVALID_LAYOUT: u32 = 1;
pub const V_DEALLOC_LAYOUT: u32 = 2;
pub const V_REALLOC_LAYOUT: u32 = 3;
pub const V_GUARD: u32 = 4;
pub const V_QUARANTINE_WRITE: u32 = 5;
pub const V_DOUBLE_FREE: u32 = 6;
pub const V_ZERO_SIZE: u32 = 7;

pub fn violation_text(v: (u32, usize, usize)) -> Option<String> {
    match v.0 {
        0 => None,
        V_INVALID_LAYOUT => Some(format!("allocator received an invalid layout: size={} align={} (size overflows isize)", v.1, v.2)),
        V_DEALLOC_LAYOUT => Some(format!("dealloc with layout {} but the block was allocated with {}", unpack_layout(v.1), unpack_layout(v.2))),
        V_REALLOC_LAYOUT => Some(format!("realloc with old layout {} but the block was allocated with {}", unpack_layout(v.1), unpack_layout(v.2))),
        V_GUARD => Some(format!("guard zone of heap block (size {}) overwritten", v.1)),
        V_QUARANTINE_WRITE => Some(format!("freed heap block (size {}) written at byte {} after free", v.1, v.2)),
        V_DOUBLE_FREE => Some(format!("heap block freed twice / freed while quarantined (size {})", v.1)),
        V_ZERO_SIZE => Some(format!("allocator called with zero-size request (align {})", v.2)),
        _ => Some("allocator violation".to_string()),
    }
}

/// size and alignment of a layout in one word (allocated blocks are far below 2^56 bytes)
fn pack_layout(size: usize, align: usize) -> usize {
    (size & ((1 << 56) - 1)) | ((align.trailing_zeros() as usize) << 56)
}
fn unpack_layout(x: usize) -> String {
    format!("size={} align={}", x & ((1 << 56) - 1), 1usize << (x >> 56))
}

#[inline]
fn set_viol(code: u32, a: usize, b: usize) {
    ST.with(|s| {
        if s.viol.get().0 == 0 {
            s.viol.set((code, a, b));
        }
    });
    crate::blackbox::note_alloc_violation(code, a, b);
}

#[inline]
fn gsz(align: usize) -> usize {
    if align > G {
        align
    } else {
        G
    }
}

unsafe fn guards_ok(r: &Rec) -> bool {
    let g = gsz(r.align);
    let pre = std::slice::from_raw_parts((r.data - r.pre) as *const u8, r.pre);
    let post = std::slice::from_raw_parts((r.data + r.size) as *const u8, g);
    pre.iter().all(|x| *x == GUARD_BYTE) && post.iter().all(|x| *x == GUARD_BYTE)
}

unsafe fn tracked_alloc(layout: Layout) -> *mut u8 {
    let (size, align) = (layout.size(), layout.align());
    if size > (isize::MAX as usize) - (align - 1) {
        set_viol(V_INVALID_LAYOUT, size, align);
        return std::ptr::null_mut();
    }
    if size == 0 {
        set_viol(V_ZERO_SIZE, size, align);
    }
    if size > (1 << 32) {
        // valid but absurd: refuse like a real allocator under memory pressure
        return std::ptr::null_mut();
    }
    let g = gsz(align);
    // an allocator owes the caller exactly the alignment that was asked for: hand out a pointer
    // that is aligned to `align` and to nothing larger, so that under-aligned requests show
    let total = size + 2 * g + align;
    let base = System.alloc(Layout::from_size_align_unchecked(total, g));
    if base.is_null() {
        return base;
    }
    let pre = if (base as usize + g) % (2 * align) == 0 { g + align } else { g };
    std::ptr::write_bytes(base, GUARD_BYTE, total);
    std::ptr::write_bytes(base.add(pre), POISON_NEW, size);
    let data = base as usize + pre;
    let tracked = ST.with(|s| {
        let recs = &mut *s.recs.get();
        // find a free slot, else recycle the oldest quarantined one
        let mut idx = recs.iter().position(|r| r.state == 0);
        if idx.is_none() {
            if let Some(q) = recs.iter().position(|r| r.state == 2) {
                release_quarantined(&mut recs[q]);
                idx = Some(q);
            }
        }
        if let Some(i) = idx {
            recs[i] = Rec { pre, data, size, align, state: 1 };
            if i + 1 > s.used.get() {
                s.used.set(i + 1);
            }
            s.live.set(s.live.get() + 1);
            let c = &mut *s.c.get();
            c.live += 1;
            c.live_bytes += size as u64;
        }
        idx.is_some()
    });
    if !tracked {
        // table full of live blocks (never happens with <= 3 vectors): an ordinary, unmonitored block
        // - a guarded block that is not in the table could not be recognised when it is freed
        System.dealloc(base, Layout::from_size_align_unchecked(total, g));
        return System.alloc(layout);
    }
    data as *mut u8
}

unsafe fn release_quarantined(r: &mut Rec) {
    let g = gsz(r.align);
    System.dealloc((r.data - r.pre) as *mut u8, Layout::from_size_align_unchecked(r.size + 2 * g + r.align, g));
    r.state = 0;
}

#[inline]
unsafe fn find(ptr: *mut u8) -> Option<usize> {
    ST.with(|s| {
        let used = s.used.get();
        if used == 0 {
            return None;
        }
        let recs = &*s.recs.get();
        let p = ptr as usize;
        (0..used).find(|&i| recs[i].state != 0 && recs[i].data == p)
    })
}

unsafe fn tracked_free(i: usize, layout: Layout, code: u32) {
    ST.with(|s| {
        let recs = &mut *s.recs.get();
        let r = &mut recs[i];
        if r.state == 2 {
            set_viol(V_DOUBLE_FREE, r.size, 0);
            return;
        }
        if layout.size() != r.size || layout.align() != r.align {
            set_viol(code, pack_layout(layout.size(), layout.align()), pack_layout(r.size, r.align));
        }
        if !guards_ok(r) {
            set_viol(V_GUARD, r.size, 0);
        }
        std::ptr::write_bytes(r.data as *mut u8, POISON_FREED, r.size);
        r.state = 2;
        s.live.set(s.live.get() - 1);
        let c = &mut *s.c.get();
        c.live -= 1;
        c.live_bytes -= r.size as u64;
    });
}

unsafe impl GlobalAlloc for SimAlloc {
    #[inline]
    unsafe fn alloc(&self, layout: Layout) -> *mut u8 {
        let unwinding_in_step = !in_lib() && crate::registry::in_step() && std::thread::panicking();
        if (in_lib() || unwinding_in_step) && ST.with(|s| s.enabled.get()) {
            // Tracked (table, guards, fill) in every case. Only requests made while the thread is
            // not unwinding count as "the library allocated" for the no-heap check of stack-backed
            // vectors: the panic runtime boxes its payload while `panicking()` is already true.
            if !std::thread::panicking() {
                ST.with(|s| (*s.c.get()).allocs += 1);
            } else {
                ST.with(|s| (*s.c.get()).untracked_in_lib += 1);
            }
            return tracked_alloc(layout);
        }
        System.alloc(layout)
    }
    #[inline]
    unsafe fn dealloc(&self, ptr: *mut u8, layout: Layout) {
        if let Some(i) = find(ptr) {
            ST.with(|s| (*s.c.get()).deallocs += 1);
            tracked_free(i, layout, V_DEALLOC_LAYOUT);
            return;
        }
        System.dealloc(ptr, layout)
    }
    #[inline]
    unsafe fn realloc(&self, ptr: *mut u8, layout: Layout, new_size: usize) -> *mut u8 {
        if let Some(i) = find(ptr) {
            // growth of the panic runtime's message buffer happens while the thread already counts
            // as panicking: tracked, but not a request of the library
            if !std::thread::panicking() {
                ST.with(|s| (*s.c.get()).reallocs += 1);
            }
            let (old_size, old_align, state) = ST.with(|s| {
                let r = &(*s.recs.get())[i];
                (r.size, r.align, r.state)
            });
            if state == 2 {
                set_viol(V_DOUBLE_FREE, old_size, 0);
                return std::ptr::null_mut();
            }
            let new_layout = Layout::from_size_align_unchecked(new_size, old_align);
            let new = tracked_alloc(new_layout);
            if new.is_null() {
                return new;
            }
            // like GlobalAlloc's default realloc: what the caller *says* the old block holds is
            // what gets copied (never more than the block really has)
            std::ptr::copy_nonoverlapping(ptr, new, layout.size().min(new_size).min(old_size));
            tracked_free(i, layout, V_REALLOC_LAYOUT);
            return new;
        }
        System.realloc(ptr, layout, new_size)
    }
}

// ---- control (harness side) ---------------------------------------------------------------

pub fn begin_run(enabled: bool, realloc_moves: bool) {
    end_run();
    ST.with(|s| {
        s.enabled.set(enabled);
        s.realloc_moves.set(realloc_moves);
        s.viol.set((0, 0, 0));
        unsafe { *s.c.get() = AllocCounters::default() };
    });
}

/// Check guards of live blocks and poison of quarantined ones.
pub fn check() -> Option<String> {
    ST.with(|s| unsafe {
        let recs = &*s.recs.get();
        for r in recs.iter().take(s.used.get()) {
            if r.state == 1 && !guards_ok(r) {
                return Some(format!("guard zone of heap block (size {}) overwritten", r.size));
            }
            if r.state == 2 {
                if !guards_ok(r) {
                    return Some(format!("guard zone of freed heap block (size {}) overwritten", r.size));
                }
                let d = std::slice::from_raw_parts(r.data as *const u8, r.size);
                if let Some(p) = d.iter().position(|x| *x != POISON_FREED) {
                    return Some(format!("freed heap block (size {}) written at byte {} after free", r.size, p));
                }
            }
        }
        violation_text(s.viol.get())
    })
}

pub fn counters() -> AllocCounters {
    ST.with(|s| unsafe { *s.c.get() })
}

/// live tracked block whose data pointer is `addr`: (size, align)
pub fn lookup(addr: usize) -> Option<(usize, usize)> {
    ST.with(|s| unsafe {
        let recs = &*s.recs.get();
        recs.iter().take(s.used.get()).find(|r| r.state == 1 && r.data == addr).map(|r| (r.size, r.align))
    })
}

/// End of run: returns leak description if library blocks are still live; frees everything.
pub fn end_run() -> Option<String> {
    let chk = check();
    ST.with(|s| unsafe {
        let recs = &mut *s.recs.get();
        let mut leaked = 0usize;
        let mut leaked_bytes = 0usize;
        for r in recs.iter_mut().take(s.used.get()) {
            if r.state == 1 {
                leaked += 1;
                leaked_bytes += r.size;
                r.state = 2;
            }
            if r.state == 2 {
                release_quarantined(r);
            }
        }
        s.used.set(0);
        s.live.set(0);
        s.enabled.set(false);
        if chk.is_some() {
            chk
        } else if leaked > 0 {
            Some(format!("{} heap block(s) ({} bytes) allocated by the library were never freed", leaked, leaked_bytes))
        } else {
            None
        }
    })
}
