//! Own PRNG (no third-party dependency): SplitMix64 seeding a xoshiro256**.
//! Every choice of a run derives from one u64.

#[derive(Clone, Debug)]
pub struct Rng {
    s: [u64; 4],
}

#[inline]
pub fn splitmix(x: &mut u64) -> u64 {
    *x = x.wrapping_add(0x9E37_79B9_7F4A_7C15);
    let mut z = *x;
    z = (z ^ (z >> 30)).wrapping_mul(0xBF58_476D_1CE4_E5B9);
    z = (z ^ (z >> 27)).wrapping_mul(0x94D0_49BB_1331_11EB);
    z ^ (z >> 31)
}

/// Mix two integers into one seed (run i of batch seed S uses mix(S, i)).
#[inline]
pub fn mix(a: u64, b: u64) -> u64 {
    let mut x = a ^ b.wrapping_mul(0xD6E8_FEB8_6659_FD93).rotate_left(23);
    let r = splitmix(&mut x);
    r ^ splitmix(&mut x).rotate_left(17)
}

impl Rng {
    pub fn new(seed: u64) -> Self {
        let mut x = seed;
        let s = [splitmix(&mut x), splitmix(&mut x), splitmix(&mut x), splitmix(&mut x)];
        Rng { s }
    }
    #[inline]
    pub fn next_u64(&mut self) -> u64 {
        let r = self.s[1].wrapping_mul(5).rotate_left(7).wrapping_mul(9);
        let t = self.s[1] << 17;
        self.s[2] ^= self.s[0];
        self.s[3] ^= self.s[1];
        self.s[1] ^= self.s[2];
        self.s[0] ^= self.s[3];
        self.s[2] ^= t;
        self.s[3] = self.s[3].rotate_left(45);
        r
    }
    /// uniform in 0..n (n > 0)
    #[inline]
    pub fn below(&mut self, n: u64) -> u64 {
        debug_assert!(n > 0);
        // multiply-shift; bias irrelevant here
        ((self.next_u64() as u128 * n as u128) >> 64) as u64
    }
    #[inline]
    pub fn usize_below(&mut self, n: usize) -> usize {
        self.below(n as u64) as usize
    }
    /// inclusive range
    #[inline]
    pub fn range(&mut self, lo: u64, hi: u64) -> u64 {
        lo + self.below(hi - lo + 1)
    }
    #[inline]
    pub fn chance(&mut self, num: u64, den: u64) -> bool {
        self.below(den) < num
    }
    #[inline]
    pub fn pick<'a, T>(&mut self, xs: &'a [T]) -> &'a T {
        &xs[self.usize_below(xs.len())]
    }
    /// weighted pick: returns index
    pub fn weighted(&mut self, w: &[u32]) -> usize {
        let total: u64 = w.iter().map(|x| *x as u64).sum();
        if total == 0 {
            return 0;
        }
        let mut r = self.below(total);
        for (i, x) in w.iter().enumerate() {
            if r < *x as u64 {
                return i;
            }
            r -= *x as u64;
        }
        w.len() - 1
    }
}

/// 64-bit FNV-1a style running hash for event logs (no addresses ever enter it).
#[derive(Clone, Copy, Debug)]
pub struct LogHash(pub u64);
impl LogHash {
    pub fn new() -> Self {
        LogHash(0xcbf2_9ce4_8422_2325)
    }
    #[inline]
    pub fn u64(&mut self, v: u64) {
        let mut h = self.0;
        h ^= v;
        h = h.wrapping_mul(0x1000_0000_01b3);
        h ^= h >> 29;
        h = h.wrapping_mul(0x9E37_79B9_7F4A_7C15);
        self.0 = h;
    }
    #[inline]
    pub fn bytes(&mut self, b: &[u8]) {
        for c in b {
            self.u64(*c as u64 + 0x100);
        }
    }
}
