//! Counters for faults injected through simulated user code other than element
//! Drop/Clone (replacement iterators), counted when they actually fire.
use std::cell::Cell;
thread_local! {
    static NEXT_CALLS: Cell<u64> = const { Cell::new(0) };
    static NEXT_FIRED: Cell<u64> = const { Cell::new(0) };
    static LEN_LIES: Cell<u64> = const { Cell::new(0) };
}
#[inline] pub fn note_next() { NEXT_CALLS.with(|c| c.set(c.get() + 1)); }
#[inline] pub fn note_next_fired() { NEXT_FIRED.with(|c| c.set(c.get() + 1)); }
#[inline] pub fn note_len_lie() { LEN_LIES.with(|c| c.set(c.get() + 1)); }
pub fn reset() { NEXT_CALLS.with(|c| c.set(0)); NEXT_FIRED.with(|c| c.set(0)); LEN_LIES.with(|c| c.set(0)); }
pub fn next_calls() -> u64 { NEXT_CALLS.with(|c| c.get()) }
pub fn next_fired() -> u64 { NEXT_FIRED.with(|c| c.get()) }
pub fn len_lies() -> u64 { LEN_LIES.with(|c| c.get()) }
