//! Simulated storage environment for the user-defined back end `SimMem`
//! (the `MemBuilder`/`Mem` impls themselves live in `simadapter`; this is the
//! non-generic part: instrumented blocks, policies, event counters).
//!
//! Blocks are taken straight from `System`, never through the global allocator,
//! so the allocator monitor (`simalloc`) only ever sees `mem::Heap` traffic.

use crate::registry::enter_harness;
use crate::types::EnvPolicy;
use std::alloc::{GlobalAlloc, Layout, System};
use std::cell::RefCell;

pub const GUARD: usize = 64;
/// Byte values >= 0xF7 never occur in a valid element encoding of size >= 1 as the leading
/// tag bytes, so each instrumentation pattern is recognisable in memory.
pub const GUARD_BYTE: u8 = 0xF9;
/// fresh and released storage
pub const POISON: u8 = 0xFA;
/// spare-capacity poison written by the harness between steps, by slot index modulo 4
pub const SPARE_POISON: [u8; 4] = [0xFB, 0xFC, 0xFD, 0xFF];
/// destroyed element (scribbled by the simulated element's Drop)
pub const DEAD: u8 = 0xFE;

#[derive(Clone, Copy, Debug, PartialEq, Eq)]
pub enum BlockState {
    Live,
    Quarantined,
    /// verified untouched and returned to the system (quarantine budget)
    Freed,
}

pub const QUARANTINE_BUDGET: usize = 64 << 20;

#[derive(Clone, Copy, Debug)]
pub struct Block {
    pub base: usize,
    pub total: usize,
    pub data: usize,
    pub len: usize,
    pub align: usize,
    pub state: BlockState,
}

#[derive(Clone, Copy, Debug, Default, PartialEq, Eq)]
pub struct MemCounters {
    pub builds: u64,
    pub builds_sized: u64,
    pub expands: u64,
    pub expands_exact: u64,
    pub resizes: u64,
    pub drops: u64,
    /// calls that actually changed the capacity
    pub cap_changes: u64,
    pub relocations: u64,
    pub injected_failures: u64,
    pub live_blocks: u64,
}
impl MemCounters {
    /// calls that may fail by contract ("may panic if fail to allocate")
    pub fn calls(&self) -> u64 {
        self.expands + self.expands_exact + self.resizes + self.builds_sized
    }
}

pub struct Env {
    pub policy: EnvPolicy,
    pub blocks: Vec<Block>,
    pub c: MemCounters,
    /// k-th capacity-changing call from `fail_base` panics (0 = never)
    pub fail_at: u64,
    pub elem_size: usize,
    pub elem_align: usize,
    pub violations: Vec<String>,
    pub quarantined_bytes: usize,
    /// memcheck engine: plain exact-size blocks, freed at once, no guards / fill / quarantine
    pub passthrough: bool,
    salt_state: u64,
}

thread_local! {
    static ENV: RefCell<Env> = RefCell::new(Env {
        policy: EnvPolicy { relocate: 0, over_expand: 0, over_exact: 0, realloc_moves: 1, salt: 0 },
        blocks: Vec::new(), c: MemCounters { builds:0, builds_sized:0, expands:0, expands_exact:0, resizes:0, drops:0, cap_changes:0, relocations:0, injected_failures:0, live_blocks:0 },
        fail_at: 0, elem_size: 0, elem_align: 1, violations: Vec::new(), quarantined_bytes: 0, passthrough: false, salt_state: 0,
    });
}

fn with<R>(f: impl FnOnce(&mut Env) -> R) -> R {
    let _h = enter_harness();
    ENV.with(|e| f(&mut e.borrow_mut()))
}

pub fn begin_run(policy: EnvPolicy, elem_size: usize, elem_align: usize) {
    with(|e| {
        free_all(e);
        e.policy = policy;
        e.c = MemCounters::default();
        e.fail_at = 0;
        e.elem_size = elem_size;
        e.elem_align = elem_align;
        e.violations.clear();
        e.salt_state = policy.salt as u64 | 1 << 40;
    });
}

fn free_all(e: &mut Env) {
    e.quarantined_bytes = 0;
    let pt = e.passthrough;
    for b in e.blocks.drain(..) {
        if b.state == BlockState::Freed {
            continue;
        }
        unsafe {
            let a = if pt { b.align.max(1) } else { b.align.max(GUARD) };
            System.dealloc(b.base as *mut u8, Layout::from_size_align_unchecked(b.total, a));
        }
    }
}

pub fn set_passthrough(on: bool) {
    with(|e| e.passthrough = on);
}

pub fn counters() -> MemCounters {
    with(|e| e.c)
}
pub fn violation(msg: String) {
    with(|e| {
        if e.violations.len() < 8 {
            e.violations.push(msg)
        }
    });
}
pub fn take_violations() -> Vec<String> {
    with(|e| std::mem::take(&mut e.violations))
}
/// Arm: the k-th capacity changing call from now panics before changing anything.
pub fn arm_failure(k: u64) {
    with(|e| e.fail_at = if k == 0 { 0 } else { e.c.calls() + k });
}
pub fn disarm_failure() {
    with(|e| e.fail_at = 0);
}

/// Allocate an instrumented block of `len` data bytes.
pub fn block_alloc(len: usize, align: usize) -> (usize, usize) {
    with(|e| {
        if e.passthrough {
            // exactly `len` uninitialised bytes straight from malloc: memcheck supplies red zones,
            // definedness and freed-block tracking
            let base = unsafe { System.alloc(Layout::from_size_align(len.max(1), align.max(1)).unwrap()) };
            assert!(!base.is_null());
            let id = e.blocks.len();
            e.blocks.push(Block { base: base as usize, total: len.max(1), data: base as usize, len, align, state: BlockState::Live });
            e.c.live_blocks += 1;
            return (base as usize, id);
        }
        let a = align.max(GUARD);
        let total = len + 2 * a;
        let base = unsafe { System.alloc(Layout::from_size_align(total, a).unwrap()) };
        assert!(!base.is_null());
        unsafe {
            std::ptr::write_bytes(base, GUARD_BYTE, a);
            std::ptr::write_bytes(base.add(a), POISON, len);
            std::ptr::write_bytes(base.add(a + len), GUARD_BYTE, a);
        }
        let id = e.blocks.len();
        e.blocks.push(Block { base: base as usize, total, data: base as usize + a, len, align, state: BlockState::Live });
        e.c.live_blocks += 1;
        (base as usize + a, id)
    })
}

fn guards_ok(b: &Block) -> bool {
    let a = b.align.max(GUARD);
    unsafe {
        let pre = std::slice::from_raw_parts(b.base as *const u8, a);
        let post = std::slice::from_raw_parts((b.data + b.len) as *const u8, a);
        pre.iter().all(|x| *x == GUARD_BYTE) && post.iter().all(|x| *x == GUARD_BYTE)
    }
}

/// Release: poison and keep in quarantine until the end of the run.
pub fn block_release(id: usize) {
    with(|e| {
        if id >= e.blocks.len() {
            e.violations.push(format!("release of unknown storage block {}", id));
            return;
        }
        let b = e.blocks[id];
        if b.state != BlockState::Live {
            e.violations.push(format!("storage block {} released twice", id));
            return;
        }
        if e.passthrough {
            unsafe { System.dealloc(b.base as *mut u8, Layout::from_size_align_unchecked(b.total, b.align.max(1))) };
            e.blocks[id].state = BlockState::Freed;
            e.blocks[id].total = 0;
            e.c.live_blocks -= 1;
            return;
        }
        if !guards_ok(&b) {
            e.violations.push(format!("guard zone of storage block {} overwritten (detected at release)", id));
        }
        unsafe { std::ptr::write_bytes(b.data as *mut u8, POISON, b.len) };
        e.blocks[id].state = BlockState::Quarantined;
        e.c.live_blocks -= 1;
        e.quarantined_bytes += b.total;
        // bounded quarantine: beyond the budget the oldest released blocks are verified and freed
        while e.quarantined_bytes > QUARANTINE_BUDGET {
            let oldest = match e.blocks.iter().position(|b| b.state == BlockState::Quarantined && b.total > 0) {
                Some(i) => i,
                None => break,
            };
            let ob = e.blocks[oldest];
            let data = unsafe { std::slice::from_raw_parts(ob.data as *const u8, ob.len) };
            if !guards_ok(&ob) || data.iter().any(|x| *x != POISON) {
                e.violations.push(format!("released storage block {} was written after release", oldest));
            }
            unsafe { System.dealloc(ob.base as *mut u8, Layout::from_size_align_unchecked(ob.total, ob.align.max(GUARD))) };
            e.quarantined_bytes -= ob.total;
            e.blocks[oldest].state = BlockState::Freed;
            e.blocks[oldest].total = 0;
        }
    });
}

/// Guard zones of live blocks intact, quarantined blocks untouched.
pub fn check() -> Option<String> {
    with(|e| {
        if e.passthrough {
            return None;
        }
        for (id, b) in e.blocks.iter().enumerate() {
            if b.state == BlockState::Freed {
                continue;
            }
            if !guards_ok(b) {
                return Some(format!("guard zone of storage block {} ({} bytes) overwritten", id, b.len));
            }
            if b.state == BlockState::Quarantined {
                let data = unsafe { std::slice::from_raw_parts(b.data as *const u8, b.len) };
                if let Some(pos) = data.iter().position(|x| *x != POISON) {
                    return Some(format!("released storage block {} written at byte {} after release", id, pos));
                }
            }
        }
        None
    })
}

/// Which live block contains `addr` as its data start.
pub fn lookup(addr: usize) -> Option<Block> {
    with(|e| e.blocks.iter().find(|b| b.state == BlockState::Live && b.data == addr).copied())
}
pub fn live_blocks() -> u64 {
    with(|e| e.c.live_blocks)
}

pub fn end_run() -> Option<String> {
    let r = check();
    with(|e| {
        let live = e.c.live_blocks;
        free_all(e);
        if r.is_some() {
            r
        } else if live != 0 {
            Some(format!("{} storage block(s) never released", live))
        } else {
            None
        }
    })
}

// ---- policy decisions (called by SimMem) ------------------------------------------------

#[derive(Clone, Copy, Debug, PartialEq, Eq)]
pub enum Call {
    Build,
    BuildSized,
    Expand,
    ExpandExact,
    Resize,
    Drop,
}

/// Record a call; returns Err(()) when the call must fail (caller panics).
pub fn on_call(call: Call, layout_size: usize, layout_align: usize) -> Result<(), ()> {
    with(|e| {
        match call {
            Call::Build => e.c.builds += 1,
            Call::BuildSized => e.c.builds_sized += 1,
            Call::Expand => e.c.expands += 1,
            Call::ExpandExact => e.c.expands_exact += 1,
            Call::Resize => e.c.resizes += 1,
            Call::Drop => e.c.drops += 1,
        }
        if matches!(call, Call::Build | Call::BuildSized) && (layout_size != e.elem_size || layout_align != e.elem_align) {
            e.violations.push(format!(
                "storage requested with layout size={} align={} but the element type has size={} align={}",
                layout_size, layout_align, e.elem_size, e.elem_align
            ));
        }
        if matches!(call, Call::Expand | Call::ExpandExact | Call::Resize | Call::BuildSized) && e.fail_at != 0 && e.c.calls() >= e.fail_at && !std::thread::panicking() {
            e.fail_at = 0;
            e.c.injected_failures += 1;
            return Err(());
        }
        Ok(())
    })
}

fn salted(e: &mut Env) -> u64 {
    crate::rng::splitmix(&mut e.salt_state)
}

/// New capacity for `expand(additional)` under the over-provision policy.
pub fn grow_target(cur: usize, additional: usize) -> usize {
    with(|e| {
        let want = cur.checked_add(additional).expect("SimMem: capacity overflow");
        match e.policy.over_expand {
            0 => want,
            1 => want.saturating_add(1 + (salted(e) % 3) as usize),
            _ => want.max(cur.saturating_mul(2)),
        }
    })
}
pub fn exact_target(want: usize) -> usize {
    with(|e| if e.policy.over_exact == 1 { want.saturating_add(1) } else { want })
}
/// Should this capacity change relocate the storage?
pub fn relocates(growing: bool) -> bool {
    with(|e| match e.policy.relocate {
        0 => true,
        1 => growing,
        _ => growing || salted(e) & 1 == 0,
    })
}
pub fn note_cap_change(relocated: bool) {
    with(|e| {
        e.c.cap_changes += 1;
        if relocated {
            e.c.relocations += 1;
        }
    });
}
