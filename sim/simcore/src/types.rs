//! Plain-data types shared by generator, model, executor and the generic worlds.

#[derive(Clone, Copy, Debug, PartialEq, Eq, Hash, PartialOrd, Ord)]
#[repr(u8)]
pub enum Op {
    Nop = 0,
    New = 1,
    DropVec = 2,
    Put = 3,
    Take = 4,
    Clear = 5,
    Drain = 6,
    Splice = 7,
    Get = 8,
    Iter = 9,
    Cap = 10,
    CloneVec = 11,
    CloneEmpty = 12,
    CloneEmptyIn = 13,
    MoveVec = 14,
    RawTrip = 15,
    Views = 16,
    Mutate = 17,
    Swap = 18,
    Lazy = 19,
    TypeProbe = 20,
    PushRun = 21,
}
pub const OP_NAMES: [&str; 22] = [
    "nop", "new", "dropvec", "put", "take", "clear", "drain", "splice", "get", "iter", "cap", "clonevec",
    "cloneempty", "cloneemptyin", "movevec", "rawtrip", "views", "mutate", "swap", "lazy", "typeprobe", "pushrun",
];
impl Op {
    pub fn from_u8(x: u8) -> Option<Op> {
        if (x as usize) < OP_NAMES.len() {
            Some(unsafe { std::mem::transmute::<u8, Op>(x) })
        } else {
            None
        }
    }
    pub fn name(self) -> &'static str {
        OP_NAMES[self as usize]
    }
    pub fn from_name(s: &str) -> Option<Op> {
        OP_NAMES.iter().position(|n| *n == s).and_then(|i| Op::from_u8(i as u8))
    }
}

/// API family a step goes through.
pub const VIA_ERASED: u8 = 0;
pub const VIA_TYPED: u8 = 1;
pub const VIA_UNCHECKED: u8 = 2;

// ---- Put: value source kinds (Step.kind) -------------------------------------
pub const SRC_WRAPPER: u8 = 0; // AnyValueWrapper<E> (known type)
pub const SRC_RAW: u8 = 1; // AnyValueRaw (unknown type, checked)
pub const SRC_TYPELESS: u8 = 2; // AnyValueTypelessRaw, *_unchecked
pub const SRC_SIZELESS: u8 = 3; // AnyValueSizelessRaw, *_unchecked
pub const SRC_POP: u8 = 4; // other.pop() handle
pub const SRC_REMOVE: u8 = 5; // other.remove(j) handle
pub const SRC_SWAP_REMOVE: u8 = 6; // other.swap_remove(j) handle
pub const SRC_LAZY_REF: u8 = 7; // other.at(j).lazy_clone()
pub const SRC_LAZY_MUT: u8 = 8; // other.at_mut(j).lazy_clone()
pub const SRC_LAZY_HANDLE: u8 = 9; // lazy clone of other.remove(j) (handle then dropped)
pub const SRC_POOL: u8 = 10; // previously extracted value (wrapper / typed)
pub const SRC_LAZY_LAZY: u8 = 11; // lazy clone of a lazy clone of other.at(j)
pub const SRC_KINDS: u8 = 12;

// ---- Take: which removal (Step.kind) and sink (Step.sink) ---------------------
pub const TAKE_POP: u8 = 0;
pub const TAKE_REMOVE: u8 = 1;
pub const TAKE_SWAP_REMOVE: u8 = 2;

pub const SINK_DROP: u8 = 0;
pub const SINK_DOWNCAST_KEEP: u8 = 1; // downcast::<E>() -> pool
pub const SINK_DOWNCAST_DROP: u8 = 2;
pub const SINK_DOWNCAST_WRONG: u8 = 3; // downcast::<Wrong>() -> None (handle consumed)
pub const SINK_MOVE_PUSH: u8 = 4; // other.push(handle)
pub const SINK_MOVE_INSERT: u8 = 5; // other.insert(j, handle)
pub const SINK_MUTATE: u8 = 6; // assign through downcast_mut, then drop handle
pub const SINK_LAZY: u8 = 7; // lazy clone n times into other, then drop handle
pub const SINK_SWAP: u8 = 8; // swap with a wrapper value, then drop handle
pub const SINK_FORGET: u8 = 9; // mem::forget (cancellation, F5)
pub const SINK_INSPECT: u8 = 10; // read type id / size / bytes through the handle, then drop
pub const SINK_KINDS: u8 = 11;

// ---- item sinks inside drain/splice scripts (3 bits) ---------------------------
pub const ITEM_DROP: u8 = 0;
pub const ITEM_KEEP: u8 = 1; // downcast -> pool
pub const ITEM_MOVE: u8 = 2; // push into other
pub const ITEM_FORGET: u8 = 3;
pub const ITEM_LAZY: u8 = 4; // lazy clone into other, then drop
pub const ITEM_MUTATE: u8 = 5; // assign through the item, then drop
pub const ITEM_INSPECT: u8 = 6;
pub const ITEM_MOVE_INSERT: u8 = 7; // insert(0, item) into other
pub const ITEM_KINDS: u8 = 8;

pub const END_DROP: u8 = 0;
pub const END_FORGET: u8 = 1;

// ---- splice replacement kinds (Step.kind) ---------------------------------------
pub const REPL_WRAPPER: u8 = 0;
pub const REPL_RAW: u8 = 1;
pub const REPL_LAZY: u8 = 2; // lazy clones of other[j..j+n]
pub const REPL_DRAIN: u8 = 3; // other.drain(j..j+n)
pub const REPL_KINDS: u8 = 4;

// ---- Get kinds --------------------------------------------------------------------
pub const GET_GET: u8 = 0;
pub const GET_AT: u8 = 1;
pub const GET_GET_MUT: u8 = 2;
pub const GET_AT_MUT: u8 = 3;
pub const GET_UNCHECKED: u8 = 4; // get_unchecked(i), only issued for i < len
pub const GET_UNCHECKED_MUT: u8 = 5;
pub const GET_KINDS: u8 = 6;

// ---- Iter kinds ---------------------------------------------------------------------
pub const IT_ITER: u8 = 0;
pub const IT_ITER_MUT: u8 = 1;
pub const IT_REF_INTO: u8 = 2;
pub const IT_MUT_INTO: u8 = 3;
pub const IT_TYPED: u8 = 4; // typed view iter() (a slice iterator over the view's slice)
pub const IT_TYPED_MUT: u8 = 5; // typed view iter_mut(); not Clone: the clone op degrades to len
pub const IT_KINDS: u8 = 6;
// iterator script ops
pub const ITOP_NEXT: u8 = 0;
pub const ITOP_NEXT_BACK: u8 = 1;
pub const ITOP_LEN: u8 = 2;
pub const ITOP_HINT: u8 = 3;
pub const ITOP_CLONE: u8 = 4; // clone, advance the clone once from the front, report, drop the clone
// provided Iterator methods a library may override (resolved script byte = op | k << 4)
pub const ITOP_NTH: u8 = 5; // nth(k)
pub const ITOP_NTH_BACK: u8 = 6; // nth_back(k)
pub const ITOP_REST: u8 = 7; // on a clone: count() and last(); the original is unaffected
/// raw script byte -> (op, k): bytes below 200 are the five basic ops, 200.. the provided methods
pub fn itop_decode(b: u8) -> (u8, usize) {
    if b < 200 {
        (b % 5, 0)
    } else {
        (5 + (b - 200) % 3, (((b - 200) / 3) % 8) as usize)
    }
}

// ---- Cap kinds -------------------------------------------------------------------------
pub const CAP_RESERVE: u8 = 0;
pub const CAP_RESERVE_EXACT: u8 = 1;
pub const CAP_SHRINK_TO_FIT: u8 = 2;
pub const CAP_SHRINK_TO: u8 = 3;

// ---- Mutate kinds (which handle writes) ---------------------------------------------------
pub const MUT_ELEMENT_MUT: u8 = 0; // at_mut(i).downcast_mut
pub const MUT_TYPED_AT: u8 = 1; // typed at_mut
pub const MUT_TYPED_SLICE: u8 = 2; // typed as_mut_slice
pub const MUT_BYTES: u8 = 3; // as_bytes_mut (value-level replace via raw bytes)
pub const MUT_ITER_MUT: u8 = 4; // i-th item of iter_mut
pub const MUT_TYPED_ITER: u8 = 5; // typed iter_mut
pub const MUT_KINDS: u8 = 6;

// ---- Swap partner kinds -----------------------------------------------------------------
pub const SWP_WRAPPER: u8 = 0;
pub const SWP_RAW: u8 = 1;
pub const SWP_ELEMENT: u8 = 2; // other.at_mut(j)
pub const SWP_HANDLE: u8 = 3; // other.remove(j) handle, dropped afterwards
pub const SWP_KINDS: u8 = 4;

// ---- TypeProbe kinds (C04) -------------------------------------------------------------
pub const TP_PUSH_WRAPPER: u8 = 0;
pub const TP_INSERT_WRAPPER: u8 = 1;
pub const TP_PUSH_RAW: u8 = 2;
pub const TP_INSERT_RAW: u8 = 3;
pub const TP_PUSH_HANDLE: u8 = 4;
pub const TP_SPLICE: u8 = 5;
pub const TP_SWAP: u8 = 6;
pub const TP_DOWNCAST: u8 = 7;
pub const TP_PUSH_LAZY: u8 = 8; // lazy clone of an element of a twin-typed vector
pub const TP_KINDS: u8 = 9;

/// One scenario step: flat, so that serialisation, deletion and field-wise
/// simplification are uniform. All indices are *raw*; the model interprets them
/// relative to the current state, so every subsequence of a scenario is a
/// scenario.
#[derive(Clone, Debug, PartialEq, Eq, Hash)]
pub struct Step {
    pub op: Op,
    pub slot: u8,
    pub other: u8,
    pub via: u8,
    pub kind: u8,
    pub sink: u8,
    pub form: u8, // range form / insert-vs-push / end kind, op specific
    pub a: u64,
    pub b: u64,
    pub c: u64,
    pub n: u32,
    pub script: Vec<u8>,
}
impl Step {
    /// range form of a TypeProbe splice (Step.form holds the operand order there)
    pub fn form2(&self) -> u8 {
        self.sink
    }
    pub fn new(op: Op) -> Step {
        Step { op, slot: 0, other: 1, via: 0, kind: 0, sink: 0, form: 0, a: 0, b: 0, c: 0, n: 0, script: Vec::new() }
    }
}

/// Faults planned for a run. `step` is the index into `Scenario.steps`.
#[derive(Clone, Debug, PartialEq, Eq, Hash)]
pub struct Fault {
    pub step: u32,
    pub kind: u8,
    pub k: u32,
    pub delta: i32,
}
pub const F_DROP_PANIC: u8 = 1;
pub const F_CLONE_PANIC: u8 = 2;
pub const F_NEXT_PANIC: u8 = 3;
pub const F_LEN_LIE: u8 = 4;
pub const F_FORGET: u8 = 5;
pub const F_MEM_FAIL: u8 = 6;
pub const FAULT_NAMES: [&str; 13] = [
    "", "F1_drop_panic", "F2_clone_panic", "F3_next_panic", "F4_len_lie", "F5_forget", "F6_mem_fail", "F7_relocate",
    "F8_overprovision", "F9_exhaustion", "F10_wrong_type", "F11_object_move", "F12_alloc_null",
];

/// Environment policy for the simulated back end / allocator (one per run).
#[derive(Clone, Copy, Debug, PartialEq, Eq, Hash, Default)]
pub struct EnvPolicy {
    /// 0 = relocate on every capacity change, 1 = only when growing, 2 = pseudo-random (from `salt`)
    pub relocate: u8,
    /// expand over-provision: 0 exact, 1 = +1..3 (salted), 2 = doubling
    pub over_expand: u8,
    /// expand_exact / build_with_size over-provision: 0 exact, 1 = +1
    pub over_exact: u8,
    /// global allocator: realloc always moves (1) or may stay in place (0)
    pub realloc_moves: u8,
    pub salt: u32,
}

#[derive(Clone, Debug, PartialEq, Eq, Hash)]
pub struct Scenario {
    pub world: u32,
    pub seed: u64,
    pub policy: EnvPolicy,
    /// placement offsets of the three vector objects inside their arenas (raw)
    pub place: [u8; 3],
    pub steps: Vec<Step>,
    pub faults: Vec<Fault>,
}

// ------------------------------------------------------------------------------------------

#[derive(Clone, Copy, Debug, PartialEq, Eq, Hash)]
pub enum BeKind {
    Heap,
    Stack,
    StackN,
    Sim,
    /// user-defined fixed-capacity back end (default `Mem::expand`, no MemResizable), instrumented like Sim
    SimFixed,
    Empty,
}
impl BeKind {
    pub fn name(self) -> &'static str {
        match self {
            BeKind::Heap => "Heap",
            BeKind::Stack => "Stack",
            BeKind::StackN => "StackN",
            BeKind::Sim => "SimMem",
            BeKind::SimFixed => "SimFixed",
            BeKind::Empty => "Empty",
        }
    }
}

#[derive(Clone, Copy, Debug, PartialEq, Eq)]
pub struct BackendInfo {
    pub kind: BeKind,
    /// `SIZE` for Stack / StackN
    pub bytes: usize,
    /// `N` for StackN
    pub n: usize,
}
impl BackendInfo {
    pub fn resizable(&self) -> bool {
        matches!(self.kind, BeKind::Heap | BeKind::Sim)
    }
    /// storage lives in blocks of the simulated environment
    pub fn in_env(&self) -> bool {
        matches!(self.kind, BeKind::Sim | BeKind::SimFixed)
    }
    pub fn on_stack(&self) -> bool {
        matches!(self.kind, BeKind::Stack | BeKind::StackN)
    }
    /// Capacity in elements that the documentation promises for fixed back ends.
    pub fn fixed_cap(&self, elem_size: usize) -> Option<usize> {
        match self.kind {
            BeKind::Stack => Some(if elem_size == 0 { usize::MAX } else { self.bytes / elem_size }),
            BeKind::StackN | BeKind::SimFixed => Some(self.n),
            BeKind::Empty => Some(0),
            _ => None,
        }
    }
    pub fn label(&self) -> String {
        match self.kind {
            BeKind::Stack => format!("Stack<{}>", self.bytes),
            BeKind::StackN => format!("StackN<{},{}>", self.n, self.bytes),
            BeKind::SimFixed => format!("SimFixed<{}>", self.n),
            k => k.name().to_string(),
        }
    }
}

#[derive(Clone, Debug, PartialEq, Eq)]
pub struct WorldInfo {
    pub id: u32,
    pub elem: &'static str,
    pub size: usize,
    pub align: usize,
    pub has_drop: bool,
    pub tag_mod: u64,
    pub cloneable: bool,
    pub traits: &'static str,
    /// back end of slots 0,1 and of slot 2
    pub be: [BackendInfo; 2],
}
impl WorldInfo {
    pub fn be_of(&self, slot: usize) -> &BackendInfo {
        if slot < 2 {
            &self.be[0]
        } else {
            &self.be[1]
        }
    }
    pub fn name(&self) -> String {
        format!("{}/{}/{}+{}", self.elem, self.traits, self.be[0].label(), self.be[1].label())
    }
}

/// Observable events of one step, produced by the world and predicted by the model.
#[derive(Clone, Copy, Debug, PartialEq, Eq, Hash)]
pub enum Ev {
    Panic,
    NoneRet,
    Val(u64),
    Len(usize),
    Bool(bool),
    /// a value that did not decode (torn / poison / garbage)
    BadVal,
    /// step variant not available in this world (never predicted for generated steps)
    Unsupported,
}

#[derive(Clone, Copy, Debug, PartialEq, Eq)]
pub enum Bnd {
    Inc(usize),
    Exc(usize),
    Unb,
}

/// A step with every index made concrete against the model state.
#[derive(Clone, Debug, PartialEq, Eq)]
pub struct RStep {
    pub op: Op,
    pub slot: usize,
    pub other: usize,
    pub via: u8,
    pub kind: u8,
    pub sink: u8,
    pub form: u8,
    pub i: usize,
    pub j: usize,
    pub n: usize,
    pub lo: Bnd,
    pub hi: Bnd,
    /// fresh tags handed to the world, in order of use
    pub tags: Vec<u64>,
    pub script: Vec<u8>,
    /// fault parameters for this step (0 = none)
    pub next_panic_at: u32,
    pub len_lie: i32,
}
impl RStep {
    pub fn nop() -> RStep {
        RStep {
            op: Op::Nop,
            slot: 0,
            other: 0,
            via: 0,
            kind: 0,
            sink: 0,
            form: 0,
            i: 0,
            j: 0,
            n: 0,
            lo: Bnd::Unb,
            hi: Bnd::Unb,
            tags: Vec::new(),
            script: Vec::new(),
            next_panic_at: 0,
            len_lie: 0,
        }
    }
}

/// What the world reports about one vector between steps.
#[derive(Clone, Debug, PartialEq, Eq, Default)]
pub struct Snap {
    pub exists: bool,
    pub len: usize,
    pub cap: usize,
    /// decoded tags of elements 0..len (INVALID_TAG when the bytes do not decode)
    pub tags: Vec<u64>,
    /// as_bytes() covers exactly len*size bytes starting at the typed pointer, is_empty consistent,
    /// element_typeid/element_layout report the real type
    pub views_ok: bool,
    /// storage pointer aligned for the element type
    pub aligned: bool,
    /// len <= cap
    pub len_le_cap: bool,
    /// address of the element storage (never logged or hashed; used to look the block up in the monitors)
    pub storage_addr: usize,
    /// guard bytes around the vector object intact
    pub object_guards_ok: bool,
    /// first spare-capacity slot holding bytes that are neither the poison the harness put there,
    /// fresh-storage fill, a destroyed value, nor a whole element copy
    pub spare_bad: Option<usize>,
}

/// The object-safe face of a generic world.
pub trait WorldOps {
    fn info(&self) -> WorldInfo;
    /// free_place: place vector objects at any admissible offset even if that misaligns inline storage
    /// (C12 sweep only); poison_spare: fill spare capacity with poison after every snapshot
    fn configure(&mut self, free_place: bool, poison_spare: bool);
    /// (Re)initialise: three fresh empty vectors at the given raw placements.
    fn reset(&mut self, place: [u8; 3]);
    /// Execute one concrete step inside catch_unwind; returns observed events.
    fn exec(&mut self, r: &RStep) -> Vec<Ev>;
    fn snapshot(&mut self, slot: usize) -> Snap;
    /// move the vector object of `slot` to an offset where its element storage is aligned
    fn realign(&mut self, slot: usize);
    /// tags of the extracted-value pool
    fn pool_tags(&self) -> Vec<u64>;
    /// diagnostic text of the last step (which view check failed)
    fn take_diag(&mut self) -> String;
    /// Drop everything (vectors, pool) - end of run. false when a drop panicked.
    fn teardown(&mut self) -> bool;
}
