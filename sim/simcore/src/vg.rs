//! Valgrind client requests (the magic no-op instruction sequence of valgrind.h, amd64 only).
//! Outside Valgrind the sequence does nothing and the default value comes back.

#[cfg(target_arch = "x86_64")]
#[inline(never)]
fn request(default: usize, req: usize, a1: usize) -> usize {
    let args: [usize; 6] = [req, a1, 0, 0, 0, 0];
    let mut result = default;
    unsafe {
        core::arch::asm!(
            "rol rdi, 3",
            "rol rdi, 13",
            "rol rdi, 61",
            "rol rdi, 51",
            "xchg rbx, rbx",
            inout("rdx") result,
            in("rax") args.as_ptr(),
            out("rdi") _,
            options(nostack),
        );
    }
    result
}
#[cfg(not(target_arch = "x86_64"))]
fn request(default: usize, _req: usize, _a1: usize) -> usize {
    default
}

/// RUNNING_ON_VALGRIND
pub fn running_on_valgrind() -> bool {
    request(0, 0x1001, 0) != 0
}
/// VALGRIND_COUNT_ERRORS: errors reported by the tool so far
pub fn count_errors() -> usize {
    request(0, 0x1201, 0)
}
