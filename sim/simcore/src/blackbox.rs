//! Per-worker "black box": a tiny file overwritten in place (one positional
//! write, no allocation) so that the parent can tell which run a worker was
//! executing when it died, and whether the allocator monitor had objected.

use std::fs::File;
use std::os::unix::fs::FileExt;
use std::sync::OnceLock;

static BB: OnceLock<File> = OnceLock::new();

pub fn open(path: &str) {
    if let Ok(f) = std::fs::OpenOptions::new().create(true).write(true).truncate(true).open(path) {
        let _ = f.write_at(&[0u8; 64], 0);
        let _ = BB.set(f);
    }
}

/// phase: 1 = running scenario, 2 = finished
#[inline]
pub fn note_run(seed: u64, index: u64, phase: u32, sub: u32) {
    if let Some(f) = BB.get() {
        let mut b = [0u8; 24];
        b[0..8].copy_from_slice(&seed.to_le_bytes());
        b[8..16].copy_from_slice(&index.to_le_bytes());
        b[16..20].copy_from_slice(&phase.to_le_bytes());
        b[20..24].copy_from_slice(&sub.to_le_bytes());
        let _ = f.write_at(&b, 0);
    }
}

#[inline]
pub fn note_alloc_violation(code: u32, a: usize, b: usize) {
    if let Some(f) = BB.get() {
        let mut buf = [0u8; 24];
        buf[0..4].copy_from_slice(&code.to_le_bytes());
        buf[8..16].copy_from_slice(&(a as u64).to_le_bytes());
        buf[16..24].copy_from_slice(&(b as u64).to_le_bytes());
        let _ = f.write_at(&buf, 32);
    }
}

pub fn note_hang() {
    if let Some(f) = BB.get() {
        let _ = f.write_at(&1u32.to_le_bytes(), 24);
    }
}

#[derive(Debug, Clone, Copy, Default)]
pub struct Record {
    pub hang: u32,
    pub seed: u64,
    pub index: u64,
    pub phase: u32,
    pub sub: u32,
    pub alloc_code: u32,
    pub a: u64,
    pub b: u64,
}

pub fn read(path: &str) -> Option<Record> {
    let d = std::fs::read(path).ok()?;
    if d.len() < 56 {
        return None;
    }
    let u64at = |o: usize| u64::from_le_bytes(d[o..o + 8].try_into().unwrap());
    let u32at = |o: usize| u32::from_le_bytes(d[o..o + 4].try_into().unwrap());
    Some(Record { hang: u32at(24), seed: u64at(0), index: u64at(8), phase: u32at(16), sub: u32at(20), alloc_code: u32at(32), a: u64at(40), b: u64at(48) })
}
