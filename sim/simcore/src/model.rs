//! Reference model: three `Vec<tag>` plus an ownership ledger. `apply` turns a
//! raw scenario step into a concrete step (`RStep`) and predicts the events the
//! real library must produce, updating the model state.

use crate::types::*;

pub const HUGE: u64 = 1 << 62;

/// raw index -> concrete index. Values >= HUGE map to the top of the usize range.
#[inline]
pub fn idx(raw: u64, bound: usize) -> usize {
    if raw >= HUGE {
        usize::MAX - (raw & 7) as usize
    } else {
        (raw % (bound.max(1) as u64)) as usize
    }
}

#[derive(Clone, Debug, Default, PartialEq, Eq)]
pub struct MVec {
    pub tags: Vec<u64>,
}

/// What may legitimately differ from the exact prediction after this step
/// (only consulted when a fault fired in the step, or for cancellation steps).
#[derive(Clone, Debug, Default)]
pub struct Relax {
    /// slots whose contents may differ from the model
    pub touched: [bool; 3],
    /// per slot: number of leading elements that must equal the pre-step contents
    pub prefix: [usize; 3],
    /// multiset of tags allowed to be visible in touched slots / pool additions
    pub universe: Vec<u64>,
    /// pre-step contents (for prefix comparison)
    pub before: [Option<Vec<u64>>; 3],
    pub pool_before: Vec<u64>,
}

#[derive(Clone, Debug)]
pub struct Pred {
    pub r: RStep,
    pub ev: Vec<Ev>,
    /// the step is a cancellation (forget) or capacity-overflow step whose exact
    /// post-state is not promised: compare with `relax` even without a fault
    pub always_relaxed: bool,
    /// 5 = cancellation (forget), 9 = capacity exhaustion inside a range operation
    pub relax_kind: u8,
    /// arming a panic fault in this step could end in a double panic (abort)
    pub abort_risk: bool,
    /// even under the relaxed oracle the step has to end in a panic (a rejected wrong-typed value)
    pub must_panic: bool,
    /// number of storage requests (MemBuilder::build / build_with_size) on the simulated back end
    /// this step must make: one per vector instance created, none otherwise
    pub builds: u32,
    pub relax: Relax,
    /// number of Clone invocations the model expects in this step
    pub clones: u64,
    /// true when the step's property-relevant oracle ran on a non-empty vector
    pub nontrivial: bool,
}

#[derive(Clone, Debug)]
pub struct Model {
    pub info: WorldInfo,
    pub vecs: [Option<MVec>; 3],
    pub pool: Vec<u64>,
    /// expected live count per tag (meaningful when info.has_drop)
    pub counts: Vec<i32>,
    /// permitted leaks per tag (subset of counts)
    pub leaks: Vec<i32>,
    pub next_tag: u64,
    pub clones: u64,
    lie: i32,
}

/// tags of one run live in 0..TAG_SPACE_MAX (they wrap; the ledger is a multiset)
pub const TAG_SPACE_MAX: usize = 1 << 12;

impl Model {
    pub fn new(info: WorldInfo) -> Model {
        let space = (info.tag_mod as usize).min(TAG_SPACE_MAX);
        Model {
            info,
            vecs: [Some(MVec::default()), Some(MVec::default()), Some(MVec::default())],
            pool: Vec::new(),
            counts: vec![0; space],
            leaks: vec![0; space],
            next_tag: 1,
            clones: 0,
            lie: 0,
        }
    }
    pub fn tag_space(&self) -> usize {
        self.counts.len()
    }
    pub fn fresh(&mut self) -> u64 {
        let t = self.next_tag % (self.counts.len() as u64);
        self.next_tag += 1;
        t
    }
    #[inline]
    fn born(&mut self, t: u64) {
        if self.info.has_drop {
            self.counts[t as usize] += 1;
        }
    }
    #[inline]
    fn died(&mut self, t: u64) {
        if self.info.has_drop {
            self.counts[t as usize] -= 1;
        }
    }
    #[inline]
    fn leak(&mut self, t: u64) {
        if self.info.has_drop {
            self.leaks[t as usize] += 1;
        }
    }
    pub fn len(&self, slot: usize) -> usize {
        self.vecs[slot].as_ref().map(|v| v.tags.len()).unwrap_or(0)
    }
    pub fn exists(&self, slot: usize) -> bool {
        self.vecs[slot].is_some()
    }
    pub fn fixed_cap(&self, slot: usize) -> Option<usize> {
        self.info.be_of(slot).fixed_cap(self.info.size)
    }
    fn full(&self, slot: usize) -> bool {
        match self.fixed_cap(slot) {
            Some(c) => self.len(slot) >= c,
            None => false,
        }
    }
    fn tags_mut(&mut self, slot: usize) -> &mut Vec<u64> {
        &mut self.vecs[slot].as_mut().unwrap().tags
    }
    fn tags(&self, slot: usize) -> &Vec<u64> {
        &self.vecs[slot].as_ref().unwrap().tags
    }
    /// another existing slot, preferring `want`
    fn pick_other(&self, slot: usize, want: usize) -> Option<usize> {
        let want = want % 3;
        if want != slot && self.exists(want) {
            return Some(want);
        }
        (0..3).find(|&s| s != slot && self.exists(s))
    }

    fn relax_base(&self, slots: &[usize], extra: &[u64]) -> Relax {
        let mut rx = Relax::default();
        for &s in slots {
            if s < 3 {
                rx.touched[s] = true;
            }
        }
        for s in 0..3 {
            rx.before[s] = self.vecs[s].as_ref().map(|v| v.tags.clone());
            if rx.touched[s] {
                if let Some(v) = &self.vecs[s] {
                    rx.universe.extend_from_slice(&v.tags);
                }
            }
        }
        rx.universe.extend_from_slice(&self.pool);
        rx.universe.extend_from_slice(extra);
        rx.pool_before = self.pool.clone();
        rx
    }

    /// Convert range form + raw bounds into concrete `Bnd`s and the std semantics.
    /// Returns (lo, hi, Some((start,end))) or None for "must panic".
    fn range(&self, form: u8, a: u64, b: u64, len: usize) -> (Bnd, Bnd, Option<(usize, usize)>) {
        let s = idx(a, len + 2);
        let e = idx(b, len + 2);
        let (lo, hi) = match form % 9 {
            0 => (Bnd::Inc(s), Bnd::Exc(e)),
            1 => (Bnd::Inc(s), Bnd::Inc(e)),
            2 => (Bnd::Unb, Bnd::Exc(e)),
            3 => (Bnd::Unb, Bnd::Inc(e)),
            4 => (Bnd::Inc(s), Bnd::Unb),
            5 => (Bnd::Unb, Bnd::Unb),
            6 => (Bnd::Exc(s), Bnd::Inc(e)),
            7 => (Bnd::Exc(s), Bnd::Exc(e)),
            _ => (Bnd::Exc(s), Bnd::Unb),
        };
        let start = match lo {
            Bnd::Inc(x) => Some(x),
            Bnd::Exc(x) => x.checked_add(1),
            Bnd::Unb => Some(0),
        };
        let end = match hi {
            Bnd::Inc(x) => x.checked_add(1),
            Bnd::Exc(x) => Some(x),
            Bnd::Unb => Some(len),
        };
        let se = match (start, end) {
            (Some(s), Some(e)) if s <= e && e <= len => Some((s, e)),
            _ => None,
        };
        (lo, hi, se)
    }

    /// Resolve + predict + update.
    /// `caps`: capacities observed in the last snapshot (used only to keep
    /// spare-capacity writes inside the capacity).
    pub fn apply(&mut self, st: &Step, caps: [usize; 3]) -> Pred {
        self.apply_with(st, caps, 0)
    }

    /// `lie`: planned misreport of the replacement iterator's length (fault F4), needed to
    /// know whether completing a splice can panic.
    pub fn apply_with(&mut self, st: &Step, caps: [usize; 3], lie: i32) -> Pred {
        self.lie = lie;
        let slot = (st.slot % 3) as usize;
        let mut r = RStep::nop();
        r.op = st.op;
        r.slot = slot;
        r.other = (st.other % 3) as usize;
        r.via = st.via % 3;
        r.kind = st.kind;
        r.sink = st.sink;
        r.form = st.form;
        r.script = st.script.clone();
        let mut p = Pred { r, ev: Vec::new(), always_relaxed: false, relax_kind: 5, abort_risk: false, must_panic: false, builds: 0, relax: Relax::default(), clones: 0, nontrivial: false };

        // default for the relaxed oracle (ops that involve more refine it): only `slot` may change
        p.relax = self.relax_base(&[slot], &[]);
        if st.op == Op::Nop || (st.op != Op::New && !self.exists(slot)) {
            p.r.op = Op::Nop;
            return p;
        }
        let sim = |m: &Model, slot: usize| m.info.be_of(slot).in_env() as u32;
        match st.op {
            Op::New => self.op_new(st, &mut p),
            Op::DropVec => {
                p.relax = self.relax_base(&[slot], &[]);
                let tags = self.vecs[slot].take().unwrap().tags;
                p.nontrivial = !tags.is_empty();
                for t in tags {
                    self.died(t);
                }
            }
            Op::Put => self.op_put(st, &mut p),
            Op::Take => self.op_take(st, &mut p),
            Op::Clear => {
                p.relax = self.relax_base(&[slot], &[]);
                p.r.via = st.via % 2;
                let tags = std::mem::take(self.tags_mut(slot));
                p.nontrivial = !tags.is_empty();
                for t in tags {
                    self.died(t);
                }
            }
            Op::Drain => self.op_drain(st, &mut p, false),
            Op::Splice => self.op_drain(st, &mut p, true),
            Op::Get => {
                let len = self.len(slot);
                p.r.via = st.via % 2;
                p.r.kind = st.kind % GET_KINDS;
                p.r.i = idx(st.a, len + 2);
                if p.r.kind >= GET_UNCHECKED && p.r.i >= len {
                    // the unchecked accessors are only defined for valid indices
                    p.r.kind -= GET_UNCHECKED;
                }
                p.nontrivial = len > 0;
                if p.r.i < len {
                    p.ev.push(Ev::Val(self.tags(slot)[p.r.i]));
                    if p.r.via == VIA_ERASED {
                        p.ev.push(Ev::Bool(true));
                    }
                } else if p.r.kind == GET_GET || p.r.kind == GET_GET_MUT {
                    p.ev.push(Ev::NoneRet);
                } else {
                    p.ev.push(Ev::Panic);
                }
            }
            Op::Iter => self.op_iter(st, &mut p),
            Op::Cap => self.op_cap(st, &mut p),
            Op::CloneVec | Op::CloneEmpty | Op::CloneEmptyIn => self.op_clone(st, &mut p),
            Op::MoveVec => {
                p.r.i = st.a as usize % 128;
            }
            Op::RawTrip => {
                p.r.form = st.form % 4;
                if p.r.form >= 2 {
                    // zero-capacity Empty back end probe (independent of the slot's back end)
                    let t = self.fresh();
                    p.r.tags.push(t);
                    p.nontrivial = true;
                    p.ev.push(Ev::Bool(true));
                    if self.info.cloneable {
                        self.clones += 1;
                        p.clones += 1;
                    }
                } else if self.info.be_of(slot).kind != BeKind::Heap && self.info.be_of(slot).kind != BeKind::Sim {
                    p.r.op = Op::Nop;
                } else {
                    let len = self.len(slot);
                    p.nontrivial = len > 0;
                    p.ev.push(Ev::Len(len));
                    p.ev.push(Ev::Bool(true));
                    // the rebuilt vector reports the same drop and clone functions
                    p.ev.push(Ev::Bool(true));
                }
            }
            Op::Views => self.op_views(st, &mut p, caps),
            Op::Mutate => {
                let len = self.len(slot);
                if len == 0 {
                    p.r.op = Op::Nop;
                } else {
                    p.r.kind = st.kind % MUT_KINDS;
                    p.r.i = idx(st.a, len);
                    let t2 = self.fresh();
                    p.r.tags.push(t2);
                    let old = self.tags(slot)[p.r.i];
                    self.died(old);
                    self.born(t2);
                    self.tags_mut(slot)[p.r.i] = t2;
                    p.ev.push(Ev::Val(old));
                    // the written value is seen identically through every other view
                    p.ev.push(Ev::Bool(true));
                    p.nontrivial = true;
                }
            }
            Op::Swap => self.op_swap(st, &mut p),
            Op::Lazy => self.op_lazy(st, &mut p),
            Op::PushRun => {
                let n = (st.n as usize).min(1 << 16);
                let room = match self.fixed_cap(slot) {
                    Some(c) => c.saturating_sub(self.len(slot)),
                    None => usize::MAX,
                };
                let n = n.min(room);
                p.r.n = n;
                p.r.via = st.via % 3;
                // tags are derived by the world from the first tag (sequential modulo tag space)
                let first = self.next_tag;
                p.r.i = first as usize;
                for _ in 0..n {
                    let t = self.fresh();
                    self.born(t);
                    self.tags_mut(slot).push(t);
                }
                p.nontrivial = n > 0;
            }
            Op::TypeProbe => self.op_typeprobe(st, &mut p),
            Op::Nop => {
                p.r.op = Op::Nop;
            }
        }
        p.builds = match p.r.op {
            Op::New => sim(self, p.r.slot),
            Op::CloneVec | Op::CloneEmpty => sim(self, p.r.slot),
            Op::CloneEmptyIn => sim(self, p.r.other),
            Op::TypeProbe if p.r.kind == TP_PUSH_HANDLE || p.r.kind == TP_PUSH_LAZY => 1,
            Op::RawTrip if p.r.form >= 2 => 1 + self.info.cloneable as u32,
            _ => 0,
        };
        p
    }

    fn op_new(&mut self, st: &Step, p: &mut Pred) {
        let slot = p.r.slot;
        p.relax = self.relax_base(&[slot], &[]);
        if let Some(v) = self.vecs[slot].take() {
            for t in v.tags {
                self.died(t);
            }
        }
        self.vecs[slot] = Some(MVec::default());
        p.r.form = st.form % 2;
        p.r.n = (st.n % 40) as usize;
        p.r.i = st.a as usize % 128; // placement
        if p.r.form == 1 && !self.info.be_of(slot).resizable() {
            p.r.form = 0;
        }
    }

    fn op_put(&mut self, st: &Step, p: &mut Pred) {
        let slot = p.r.slot;
        let len = self.len(slot);
        let insert = st.form % 2 == 1;
        p.r.form = insert as u8;
        let mut via = st.via % 3;
        let mut kind = st.kind % SRC_KINDS;
        let other = self.pick_other(slot, st.other as usize);
        // availability
        let needs_other = matches!(
            kind,
            SRC_POP | SRC_REMOVE | SRC_SWAP_REMOVE | SRC_LAZY_REF | SRC_LAZY_MUT | SRC_LAZY_HANDLE | SRC_LAZY_LAZY
        );
        let is_lazy = matches!(kind, SRC_LAZY_REF | SRC_LAZY_MUT | SRC_LAZY_HANDLE | SRC_LAZY_LAZY);
        if (needs_other && other.is_none()) || (is_lazy && !self.info.cloneable) || (kind == SRC_POOL && self.pool.is_empty()) {
            kind = SRC_WRAPPER;
        }
        if via == VIA_TYPED && !matches!(kind, SRC_WRAPPER | SRC_POOL) {
            kind = SRC_WRAPPER;
        }
        if matches!(kind, SRC_TYPELESS | SRC_SIZELESS) {
            via = VIA_UNCHECKED;
        }
        p.r.via = via;
        p.r.kind = kind;
        let o = other.unwrap_or(slot);
        p.r.other = o;
        p.r.i = if insert { idx(st.a, len + 2) } else { len };
        let olen = if needs_other { self.len(o) } else { 0 };
        p.nontrivial = len > 0;
        let slots: Vec<usize> = if needs_other { vec![slot, o] } else { vec![slot] };

        // 1. obtain the value
        enum Val {
            Fresh(u64),
            Handle(u64),
            Lazy(u64),
            LazyHandle(u64),
            Pool(u64),
        }
        let val = match kind {
            SRC_WRAPPER | SRC_RAW | SRC_TYPELESS | SRC_SIZELESS => {
                let t = self.fresh();
                p.r.tags.push(t);
                p.relax = self.relax_base(&slots, &[t]);
                Val::Fresh(t)
            }
            SRC_POOL => {
                p.relax = self.relax_base(&slots, &[]);
                Val::Pool(self.pool.pop().unwrap())
            }
            SRC_POP => {
                p.relax = self.relax_base(&slots, &[]);
                p.relax.prefix[o] = olen.saturating_sub(1);
                if olen == 0 {
                    p.ev.push(Ev::NoneRet);
                    return;
                }
                Val::Handle(self.tags_mut(o).pop().unwrap())
            }
            SRC_REMOVE | SRC_SWAP_REMOVE => {
                p.r.j = idx(st.b, olen + 1);
                p.relax = self.relax_base(&slots, &[]);
                p.relax.prefix[o] = p.r.j.min(olen);
                if p.r.j >= olen {
                    p.ev.push(Ev::Panic);
                    return;
                }
                let t = if kind == SRC_REMOVE { self.tags_mut(o).remove(p.r.j) } else { self.tags_mut(o).swap_remove(p.r.j) };
                Val::Handle(t)
            }
            SRC_LAZY_REF | SRC_LAZY_MUT | SRC_LAZY_LAZY => {
                p.r.j = idx(st.b, olen + 1);
                if p.r.j >= olen {
                    p.relax = self.relax_base(&slots, &[]);
                    p.relax.prefix[o] = olen;
                    p.ev.push(Ev::Panic);
                    return;
                }
                let t = self.tags(o)[p.r.j];
                p.relax = self.relax_base(&slots, &[t]);
                p.relax.prefix[o] = olen;
                Val::Lazy(t)
            }
            _ => {
                // SRC_LAZY_HANDLE
                p.r.j = idx(st.b, olen + 1);
                if p.r.j >= olen {
                    p.relax = self.relax_base(&slots, &[]);
                    p.relax.prefix[o] = olen;
                    p.ev.push(Ev::Panic);
                    return;
                }
                let t = self.tags(o)[p.r.j];
                p.relax = self.relax_base(&slots, &[t]);
                p.relax.prefix[o] = p.r.j;
                self.tags_mut(o).remove(p.r.j);
                Val::LazyHandle(t)
            }
        };
        p.relax.prefix[slot] = p.r.i.min(len);
        // 2. the put itself
        let panics = p.r.i > len || self.full(slot);
        if panics {
            p.ev.push(Ev::Panic);
            match val {
                Val::Fresh(_) => {}
                Val::Handle(t) | Val::Pool(t) | Val::LazyHandle(t) => self.died(t),
                Val::Lazy(_) => {}
            }
            return;
        }
        let t = match val {
            Val::Fresh(t) => {
                self.born(t);
                t
            }
            Val::Handle(t) | Val::Pool(t) => t,
            Val::Lazy(t) => {
                self.born(t);
                self.clones += 1;
                p.clones += 1;
                t
            }
            Val::LazyHandle(t) => {
                // clone born, original dies with the handle
                self.clones += 1;
                p.clones += 1;
                t
            }
        };
        let i = p.r.i;
        self.tags_mut(slot).insert(i, t);
    }

    fn op_take(&mut self, st: &Step, p: &mut Pred) {
        let slot = p.r.slot;
        let len = self.len(slot);
        let kind = st.kind % 3;
        let via = st.via % 2;
        let mut sink = st.sink % SINK_KINDS;
        p.r.kind = kind;
        p.r.via = via;
        p.r.form = st.form % 4; // bit 0: operand order of the swap sink; bit 1: raw-memory consumption
        let other = self.pick_other(slot, st.other as usize);
        if via == VIA_TYPED && !matches!(sink, SINK_DROP | SINK_DOWNCAST_KEEP) {
            sink = SINK_DROP;
        }
        if matches!(sink, SINK_MOVE_PUSH | SINK_MOVE_INSERT | SINK_LAZY) && other.is_none() {
            sink = SINK_DROP;
        }
        if sink == SINK_LAZY && !self.info.cloneable {
            sink = SINK_DROP;
        }
        p.r.sink = sink;
        let o = other.unwrap_or(slot);
        p.r.other = o;
        p.nontrivial = len > 0;
        let uses_other = matches!(sink, SINK_MOVE_PUSH | SINK_MOVE_INSERT | SINK_LAZY);
        let slots: Vec<usize> = if uses_other { vec![slot, o] } else { vec![slot] };
        p.relax = self.relax_base(&slots, &[]);

        // removal
        let i = if kind == TAKE_POP { len.wrapping_sub(1) } else { idx(st.a, len + 1) };
        p.r.i = i;
        if kind == TAKE_POP {
            if len == 0 {
                p.ev.push(Ev::NoneRet);
                return;
            }
        } else if i >= len {
            p.relax.prefix[slot] = len;
            p.ev.push(Ev::Panic);
            return;
        }
        p.relax.prefix[slot] = i;
        if uses_other {
            p.relax.prefix[o] = self.len(o);
        }
        let before = self.tags(slot).clone();
        let t = match kind {
            TAKE_POP => self.tags_mut(slot).pop().unwrap(),
            TAKE_REMOVE => self.tags_mut(slot).remove(i),
            _ => self.tags_mut(slot).swap_remove(i),
        };
        p.ev.push(Ev::Val(t));
        match sink {
            SINK_DROP | SINK_DOWNCAST_DROP => self.died(t),
            SINK_DOWNCAST_KEEP => self.pool.push(t),
            SINK_DOWNCAST_WRONG => {
                p.ev.push(Ev::NoneRet);
                self.died(t);
            }
            SINK_INSPECT => {
                p.ev.push(Ev::Bool(true));
                self.died(t);
            }
            SINK_MOVE_PUSH | SINK_MOVE_INSERT => {
                let olen = self.len(o);
                let j = if sink == SINK_MOVE_PUSH { olen } else { idx(st.b, olen + 2) };
                p.r.j = j;
                p.relax.prefix[o] = j.min(olen);
                if j > olen || self.full(o) {
                    p.ev.push(Ev::Panic);
                    self.died(t);
                } else {
                    self.tags_mut(o).insert(j, t);
                }
            }
            SINK_MUTATE => {
                let t2 = self.fresh();
                p.r.tags.push(t2);
                p.relax.universe.push(t2);
                self.died(t);
                p.ev.push(Ev::Val(t2));
                // t2 born and dies with the handle
            }
            SINK_SWAP => {
                let t2 = self.fresh();
                p.r.tags.push(t2);
                p.relax.universe.push(t2);
                p.ev.push(Ev::Val(t2));
                // handle now holds t2 (dies), wrapper holds t -> pool
                self.pool.push(t);
            }
            SINK_LAZY => {
                let n = (st.n % 4) as usize;
                p.r.n = n;
                for _ in 0..n {
                    p.relax.universe.push(t);
                }
                let mut panicked = false;
                for _ in 0..n {
                    if self.full(o) {
                        p.ev.push(Ev::Panic);
                        panicked = true;
                        break;
                    }
                    self.born(t);
                    self.clones += 1;
                    p.clones += 1;
                    self.tags_mut(o).push(t);
                }
                let _ = panicked;
                self.died(t);
            }
            _ => {
                // SINK_FORGET: cancellation. Exactly what happens to the rest is
                // not promised: elements before the index stay, the rest may be missing.
                p.always_relaxed = true;
                // strict part of the model = what the documentation states: everything
                // at or after the index may be lost. The executor re-synchronises.
                let keep = if kind == TAKE_POP { len - 1 } else { i };
                let lost: Vec<u64> = before[keep..].to_vec();
                self.tags_mut(slot).truncate(keep);
                *self.tags_mut(slot) = before[..keep].to_vec();
                for x in lost {
                    self.leak(x);
                }
                // (the forgotten element itself was neither moved out nor destroyed: should it
                // still be in the vector - alive, once - nothing in C07 is broken)
                p.relax.prefix[slot] = keep;
            }
        }
    }

    fn op_drain(&mut self, st: &Step, p: &mut Pred, splice: bool) {
        let slot = p.r.slot;
        let len = self.len(slot);
        let via = st.via % 2;
        p.r.via = via;
        let end_kind = st.sink % 2;
        p.r.sink = end_kind;
        let (lo, hi, se) = self.range(st.form, st.a, st.b, len);
        p.r.form = st.form % 9;
        p.r.lo = lo;
        p.r.hi = hi;
        p.nontrivial = len > 0;
        let other = self.pick_other(slot, st.other as usize);
        let o = other.unwrap_or(slot);
        p.r.other = o;
        let mut slots = vec![slot];
        if other.is_some() {
            slots.push(o);
        }

        // replacement
        let mut repl_kind = st.kind % REPL_KINDS;
        let mut repl: Vec<u64> = Vec::new();
        let mut repl_from_other = false;
        if splice {
            if via == VIA_TYPED {
                repl_kind = REPL_WRAPPER;
            }
            if matches!(repl_kind, REPL_LAZY | REPL_DRAIN) && other.is_none() {
                repl_kind = REPL_WRAPPER;
            }
            if repl_kind == REPL_LAZY && !self.info.cloneable {
                repl_kind = REPL_WRAPPER;
            }
            p.r.kind = repl_kind;
            let n = (st.n % 10) as usize;
            match repl_kind {
                REPL_WRAPPER | REPL_RAW => {
                    for _ in 0..n {
                        let t = self.fresh();
                        repl.push(t);
                    }
                    p.r.tags = repl.clone();
                    p.r.n = n;
                }
                _ => {
                    repl_from_other = true;
                    let olen = self.len(o);
                    let j = idx(st.c, olen + 1).min(olen);
                    let cnt = n.min(olen - j);
                    p.r.j = j;
                    p.r.n = cnt;
                    repl = self.tags(o)[j..j + cnt].to_vec();
                }
            }
        }
        p.relax = self.relax_base(&slots, &repl);
        if other.is_some() {
            let inserts_front = st.script.iter().any(|b| (b >> 1) % ITEM_KINDS == ITEM_MOVE_INSERT);
            p.relax.prefix[o] = if repl_from_other && repl_kind == REPL_DRAIN {
                p.r.j
            } else if inserts_front {
                0
            } else {
                self.len(o)
            };
        }

        let (start, end) = match se {
            Some(x) => x,
            None => {
                p.relax.prefix[slot] = len;
                p.ev.push(Ev::Panic);
                // the replacement (owned fresh values) is dropped unused; a drain of
                // `other` passed as replacement was already created: dropping it removes its range
                if splice && repl_kind == REPL_DRAIN {
                    let j = p.r.j;
                    let cnt = p.r.n;
                    let gone: Vec<u64> = self.tags_mut(o).drain(j..j + cnt).collect();
                    for t in gone {
                        self.died(t);
                    }
                }
                return;
            }
        };
        p.relax.prefix[slot] = start;
        let before = self.tags(slot).clone();
        let range: Vec<u64> = before[start..end].to_vec();
        let tail: Vec<u64> = before[end..].to_vec();
        // while the iterator is alive the vector is `head`
        self.tags_mut(slot).truncate(start);
        // a REPL_DRAIN replacement iterator is alive too: other is truncated to j
        let mut other_range: Vec<u64> = Vec::new();
        let mut other_tail: Vec<u64> = Vec::new();
        if splice && repl_kind == REPL_DRAIN {
            let j = p.r.j;
            let cnt = p.r.n;
            let ot = self.tags(o).clone();
            other_range = ot[j..j + cnt].to_vec();
            other_tail = ot[j + cnt..].to_vec();
            self.tags_mut(o).truncate(j);
        }
        let fits = match self.fixed_cap(slot) {
            Some(c) => start + repl.len() + tail.len() <= c,
            None => true,
        };
        // a splice whose completion panics (capacity) must not be dropped by unwinding:
        // a second panic during unwinding aborts the process, which is Rust's rule and not
        // a property of the library. Item sinks that may panic are therefore disabled.
        let fits_lie = match self.fixed_cap(slot) {
            Some(c) => start + ((repl.len() as i64 + self.lie as i64).max(0) as usize) + tail.len() <= c,
            None => true,
        };
        p.abort_risk = splice && (!fits || !fits_lie);
        let item_other_ok = other.is_some() && !(splice && repl_from_other) && !p.abort_risk;

        let mut f = 0usize;
        let mut bk = range.len();
        let mut panicked = false;
        let mut script = Vec::new();
        for (k, byte) in st.script.iter().enumerate() {
            if k >= 24 {
                break;
            }
            let back = byte & 1 == 1;
            let mut sink = (byte >> 1) % ITEM_KINDS;
            if via == VIA_TYPED && !matches!(sink, ITEM_DROP | ITEM_KEEP) {
                sink = ITEM_DROP;
            }
            if matches!(sink, ITEM_MOVE | ITEM_LAZY | ITEM_MOVE_INSERT) && !item_other_ok {
                sink = ITEM_DROP;
            }
            if sink == ITEM_LAZY && !self.info.cloneable {
                sink = ITEM_DROP;
            }
            script.push((back as u8) | (sink << 1));
            if f == bk {
                p.ev.push(Ev::NoneRet);
                p.ev.push(Ev::Len(0));
                continue;
            }
            let t = if back {
                bk -= 1;
                range[bk]
            } else {
                f += 1;
                range[f - 1]
            };
            p.ev.push(Ev::Val(t));
            match sink {
                ITEM_DROP => self.died(t),
                ITEM_KEEP => self.pool.push(t),
                ITEM_FORGET => {
                    self.leak(t);
                }
                ITEM_INSPECT => {
                    p.ev.push(Ev::Bool(true));
                    self.died(t);
                }
                ITEM_MUTATE => {
                    let t2 = self.fresh();
                    p.r.tags.push(t2);
                    p.relax.universe.push(t2);
                    p.ev.push(Ev::Val(t2));
                    self.died(t);
                }
                ITEM_MOVE | ITEM_MOVE_INSERT => {
                    if self.full(o) {
                        p.ev.push(Ev::Panic);
                        self.died(t);
                        panicked = true;
                    } else if sink == ITEM_MOVE {
                        self.tags_mut(o).push(t);
                    } else {
                        self.tags_mut(o).insert(0, t);
                    }
                }
                _ => {
                    // ITEM_LAZY
                    p.relax.universe.push(t);
                    if self.full(o) {
                        p.ev.push(Ev::Panic);
                        panicked = true;
                    } else {
                        self.born(t);
                        self.clones += 1;
                        p.clones += 1;
                        self.tags_mut(o).push(t);
                    }
                    self.died(t);
                }
            }
            if panicked {
                break;
            }
            p.ev.push(Ev::Len(bk - f));
        }
        p.r.script = script;

        if panicked || end_kind == END_DROP {
            // iterator dropped (normally or by unwinding): rest of the range dies
            for &t in &range[f..bk] {
                self.died(t);
            }
            let mut new_tags = before[..start].to_vec();
            if splice && !fits {
                // capacity exhausted inside Splice::drop: contents stay valid, what
                // survives beyond the head is not promised
                p.always_relaxed = true;
                p.relax_kind = 9;
                p.ev.push(Ev::Panic);
                // nothing of range/tail/replacement is required to survive;
                // range[f..bk] was counted dead above but may in fact leak: the
                // executor re-synchronises from the registry.
                *self.tags_mut(slot) = new_tags;
                for &t in &tail {
                    self.leak(t);
                }
                // the replacement iterator is dropped with the splice
                if repl_kind == REPL_DRAIN {
                    for &t in &other_range {
                        self.died(t);
                    }
                    let mut ot = self.tags(o).clone();
                    ot.extend_from_slice(&other_tail);
                    *self.tags_mut(o) = ot;
                }
                return;
            }
            if splice {
                // also when the iterator is dropped by unwinding: Drop completes the splice
                match repl_kind {
                    REPL_WRAPPER | REPL_RAW => {
                        for &t in &repl {
                            self.born(t);
                        }
                    }
                    REPL_LAZY => {
                        for &t in &repl {
                            self.born(t);
                            self.clones += 1;
                            p.clones += 1;
                        }
                    }
                    _ => {}
                }
                new_tags.extend_from_slice(&repl);
            }
            new_tags.extend_from_slice(&tail);
            *self.tags_mut(slot) = new_tags;
            if splice && repl_kind == REPL_DRAIN {
                // inner drain: its items moved into this vector; tail restored
                let mut ot = self.tags(o).clone();
                ot.extend_from_slice(&other_tail);
                *self.tags_mut(o) = ot;
            }
        } else {
            // END_FORGET: the vector keeps only the head for sure
            p.always_relaxed = true;
            // (range elements that were not yielded "may be missing" - they may as well still be
            // there, alive and once, e.g. when the call refused the range before building the iterator)
            for &t in &range[f..bk] {
                self.leak(t);
            }
            for &t in &tail {
                self.leak(t);
            }
            if splice {
                match repl_kind {
                    REPL_WRAPPER => {
                        // owned values forgotten together with the iterator
                        for &t in &repl {
                            self.born(t);
                            self.leak(t);
                        }
                    }
                    REPL_DRAIN => {
                        for &t in other_range.iter().chain(other_tail.iter()) {
                            self.leak(t);
                        }
                        p.relax.prefix[o] = p.r.j;
                    }
                    _ => {}
                }
            }
        }
    }

    fn op_iter(&mut self, st: &Step, p: &mut Pred) {
        let slot = p.r.slot;
        let tags = self.tags(slot).clone();
        p.r.via = st.via % 2;
        p.r.kind = st.kind % IT_KINDS;
        p.nontrivial = !tags.is_empty();
        let mut f = 0usize;
        let mut bk = tags.len();
        let mut script = Vec::new();
        for (k, b) in st.script.iter().enumerate() {
            if k >= 40 {
                break;
            }
            let (op, k) = itop_decode(*b);
            script.push(op | ((k as u8) << 4));
            match op {
                ITOP_NEXT => {
                    if f == bk {
                        p.ev.push(Ev::NoneRet);
                    } else {
                        p.ev.push(Ev::Val(tags[f]));
                        f += 1;
                    }
                }
                ITOP_NEXT_BACK => {
                    if f == bk {
                        p.ev.push(Ev::NoneRet);
                    } else {
                        bk -= 1;
                        p.ev.push(Ev::Val(tags[bk]));
                    }
                }
                ITOP_LEN => p.ev.push(Ev::Len(bk - f)),
                ITOP_HINT => {
                    p.ev.push(Ev::Len(bk - f));
                    p.ev.push(Ev::Len(bk - f));
                }
                ITOP_NTH => {
                    // as Iterator::nth: k items are skipped; an overshoot exhausts the iterator
                    if k >= bk - f {
                        f = bk;
                        p.ev.push(Ev::NoneRet);
                    } else {
                        f += k;
                        p.ev.push(Ev::Val(tags[f]));
                        f += 1;
                    }
                }
                ITOP_NTH_BACK => {
                    if k >= bk - f {
                        bk = f;
                        p.ev.push(Ev::NoneRet);
                    } else {
                        bk -= k + 1;
                        p.ev.push(Ev::Val(tags[bk]));
                    }
                }
                _ if p.r.kind == IT_TYPED_MUT => {
                    // slice::IterMut is not Clone: report the length instead
                    p.ev.push(Ev::Len(bk - f));
                }
                ITOP_REST => {
                    // clone.count(), clone.last(): original unaffected
                    p.ev.push(Ev::Len(bk - f));
                    if f == bk {
                        p.ev.push(Ev::NoneRet);
                    } else {
                        p.ev.push(Ev::Val(tags[bk - 1]));
                    }
                    p.ev.push(Ev::Len(bk - f));
                }
                _ => {
                    // clone advanced once from the front: original unaffected
                    if f == bk {
                        p.ev.push(Ev::NoneRet);
                    } else {
                        p.ev.push(Ev::Val(tags[f]));
                    }
                    p.ev.push(Ev::Len((bk - f).saturating_sub(1)));
                    p.ev.push(Ev::Len(bk - f));
                }
            }
        }
        p.r.script = script;
    }

    fn op_cap(&mut self, st: &Step, p: &mut Pred) {
        let slot = p.r.slot;
        if !self.info.be_of(slot).resizable() {
            p.r.op = Op::Nop;
            return;
        }
        let len = self.len(slot);
        p.r.kind = st.kind % 4;
        p.r.via = st.via % 2;
        // argument: small, or near usize::MAX
        let n = if st.a >= HUGE { usize::MAX - (st.a & 0xff) as usize } else { (st.a % 70) as usize };
        p.r.n = n;
        p.nontrivial = true;
        if matches!(p.r.kind, CAP_RESERVE | CAP_RESERVE_EXACT) {
            match len.checked_add(n) {
                None => p.ev.push(Ev::Panic),
                Some(total) => {
                    let bytes = total.checked_mul(self.info.size);
                    let too_big = match bytes {
                        None => true,
                        Some(b) => b > (isize::MAX as usize) - (self.info.align - 1),
                    };
                    if self.info.size != 0 && too_big {
                        // the byte size is not representable in a valid layout: must be rejected
                        // by a panic, never handed to the allocator (C10 / C18)
                        p.ev.push(Ev::Panic);
                    } else if self.info.size != 0 && total > (1 << 20) {
                        // a representable but absurd request may legitimately abort (OOM):
                        // never issued in-process (boundary probes run those in sub-processes)
                        p.r.op = Op::Nop;
                    }
                }
            }
        } else if p.r.kind == CAP_SHRINK_TO && n > (1 << 20) {
            p.r.n = n; // shrink_to(huge) is a no-op by contract
        }
    }

    fn op_clone(&mut self, st: &Step, p: &mut Pred) {
        let slot = p.r.slot;
        let tags = self.tags(slot).clone();
        p.nontrivial = !tags.is_empty();
        match st.op {
            Op::CloneVec => {
                // clone() builds the new vector in a compiler-placed temporary: with inline (stack)
                // storage and an element alignment above the vector object's own (8) that is
                // finding D10 (misaligned storage) outside any placement the simulator controls.
                if !self.info.cloneable || (self.info.be_of(slot).on_stack() && self.info.align > 8) {
                    p.r.op = Op::Nop;
                    return;
                }
                let dst = if slot < 2 { Some(1 - slot) } else { None };
                p.r.other = dst.unwrap_or(slot);
                p.relax = self.relax_base(&[slot, p.r.other], &tags);
                p.relax.prefix[slot] = tags.len();
                p.ev.push(Ev::Len(tags.len()));
                for &t in &tags {
                    p.ev.push(Ev::Val(t));
                    self.born(t);
                    self.clones += 1;
                    p.clones += 1;
                }
                match dst {
                    Some(d) => {
                        if let Some(old) = self.vecs[d].take() {
                            for t in old.tags {
                                self.died(t);
                            }
                        }
                        self.vecs[d] = Some(MVec { tags });
                    }
                    None => {
                        for &t in &tags {
                            self.died(t);
                        }
                    }
                }
            }
            Op::CloneEmpty => {
                let dst = if slot < 2 { Some(1 - slot) } else { None };
                p.r.other = dst.unwrap_or(slot);
                p.relax = self.relax_base(&[slot, p.r.other], &[]);
                p.relax.prefix[slot] = tags.len();
                p.ev.push(Ev::Len(0));
                p.ev.push(Ev::Bool(true));
                if let Some(d) = dst {
                    if let Some(old) = self.vecs[d].take() {
                        for t in old.tags {
                            self.died(t);
                        }
                    }
                    self.vecs[d] = Some(MVec::default());
                }
            }
            _ => {
                // CloneEmptyIn: into the other back end
                let d = if slot < 2 { 2 } else { (st.other % 2) as usize };
                p.r.other = d;
                p.relax = self.relax_base(&[slot, d], &[]);
                p.relax.prefix[slot] = tags.len();
                p.ev.push(Ev::Len(0));
                p.ev.push(Ev::Bool(true));
                if let Some(old) = self.vecs[d].take() {
                    for t in old.tags {
                        self.died(t);
                    }
                }
                self.vecs[d] = Some(MVec::default());
            }
        }
    }

    fn op_views(&mut self, st: &Step, p: &mut Pred, caps: [usize; 3]) {
        let slot = p.r.slot;
        let len = self.len(slot);
        p.r.via = st.via % 2;
        let spare = caps[slot].saturating_sub(len);
        let k = (st.n as usize % 5).min(spare);
        p.r.n = k;
        p.nontrivial = len > 0 || k > 0;
        p.ev.push(Ev::Bool(true));
        for _ in 0..k {
            let t = self.fresh();
            p.r.tags.push(t);
            self.born(t);
            self.tags_mut(slot).push(t);
        }
    }

    fn op_swap(&mut self, st: &Step, p: &mut Pred) {
        let slot = p.r.slot;
        let len = self.len(slot);
        if len == 0 {
            p.r.op = Op::Nop;
            return;
        }
        let mut kind = st.kind % SWP_KINDS;
        let other = self.pick_other(slot, st.other as usize);
        let o = other.unwrap_or(slot);
        if matches!(kind, SWP_ELEMENT | SWP_HANDLE) && (other.is_none() || self.len(o) == 0) {
            kind = SWP_WRAPPER;
        }
        p.r.kind = kind;
        p.r.other = o;
        p.r.i = idx(st.a, len);
        // which handle on our side: 0 = ElementMut, 1 = removal handle (re-inserted by drop? no: dropped) -> keep ElementMut
        p.r.form = st.form % 2;
        p.nontrivial = true;
        let i = p.r.i;
        let mine = self.tags(slot)[i];
        match kind {
            SWP_WRAPPER | SWP_RAW => {
                let t2 = self.fresh();
                p.r.tags.push(t2);
                self.born(t2);
                self.tags_mut(slot)[i] = t2;
                // the wrapper/raw value now holds `mine`; harness keeps it in the pool
                self.pool.push(mine);
                p.ev.push(Ev::Val(mine));
            }
            SWP_ELEMENT => {
                let j = idx(st.b, self.len(o));
                p.r.j = j;
                let theirs = self.tags(o)[j];
                self.tags_mut(slot)[i] = theirs;
                self.tags_mut(o)[j] = mine;
                p.ev.push(Ev::Val(mine));
                p.ev.push(Ev::Val(theirs));
            }
            _ => {
                // SWP_HANDLE: other.remove(j) handle swapped with our element, then dropped
                let j = idx(st.b, self.len(o));
                p.r.j = j;
                let theirs = self.tags_mut(o).remove(j);
                self.tags_mut(slot)[i] = theirs;
                self.died(mine);
                p.ev.push(Ev::Val(mine));
                p.ev.push(Ev::Val(theirs));
            }
        }
    }

    /// C04: a value of a distinct type with identical layout offered at a checked entry point.
    fn op_typeprobe(&mut self, st: &Step, p: &mut Pred) {
        let slot = p.r.slot;
        let len = self.len(slot);
        let mut kind = st.kind % TP_KINDS;
        if kind == TP_SWAP && len == 0 {
            kind = TP_PUSH_WRAPPER;
        }
        p.r.kind = kind;
        p.r.sink = kind; // carried into a violation's record: which probe it was
        p.r.via = VIA_ERASED;
        p.r.form = st.form % 2;
        p.nontrivial = true;
        p.relax = self.relax_base(&[slot], &[]);
        p.relax.prefix[slot] = len;
        match kind {
            TP_PUSH_WRAPPER | TP_PUSH_RAW => {
                let t = self.fresh();
                p.r.tags.push(t);
                p.ev.push(Ev::Panic);
            }
            TP_INSERT_WRAPPER | TP_INSERT_RAW => {
                let t = self.fresh();
                p.r.tags.push(t);
                p.r.i = idx(st.a, len + 1).min(len);
                p.ev.push(Ev::Panic);
            }
            TP_PUSH_HANDLE => {
                let t = self.fresh();
                p.r.tags.push(t);
                // the handle is dropped by unwinding: its vector loses the element
                p.ev.push(Ev::Len(0));
                p.ev.push(Ev::Panic);
            }
            TP_PUSH_LAZY => {
                let t = self.fresh();
                p.r.tags.push(t);
                if self.info.cloneable {
                    // a lazy clone owns nothing: the twin vector keeps its element, no clone is made
                    p.ev.push(Ev::Len(1));
                    p.ev.push(Ev::Panic);
                } else {
                    p.r.kind = TP_PUSH_WRAPPER;
                    p.ev.push(Ev::Panic);
                }
            }
            TP_SPLICE => {
                let (lo, hi, se) = self.range(st.form2(), st.a, st.b, len);
                let (lo, hi, start) = match se {
                    Some((s, _)) => (lo, hi, s),
                    None => (Bnd::Unb, Bnd::Unb, 0),
                };
                p.r.form = if se.is_some() { st.form2() % 9 } else { 5 };
                p.r.lo = lo;
                p.r.hi = hi;
                let n = 1 + (st.n % 4) as usize;
                p.r.n = n;
                p.r.j = (st.c % n as u64) as usize;
                for _ in 0..n {
                    let t = self.fresh();
                    p.r.tags.push(t);
                }
                p.relax.prefix[slot] = start;
                p.always_relaxed = true;
                p.must_panic = true;
                p.relax_kind = 10;
                p.ev.push(Ev::Panic);
                // hint for the strict part: only the head is promised
                let lost: Vec<u64> = self.tags(slot)[start..].to_vec();
                self.tags_mut(slot).truncate(start);
                for t in lost {
                    self.leak(t);
                }
            }
            TP_SWAP => {
                let t = self.fresh();
                p.r.tags.push(t);
                p.r.i = idx(st.a, len);
                p.ev.push(Ev::Panic);
            }
            _ => {
                let t = self.fresh();
                p.r.tags.push(t);
                p.r.i = idx(st.a, len.max(1));
                p.ev.push(Ev::Bool(true));
            }
        }
    }

    /// C09: lazy clones. slot = source vector, other = destination.
    /// kind = source kind (0 ElementRef, 1 ElementMut, 2 removal handle, 3 drained element),
    /// form = chain depth 1..3, n = consumptions 0..3, sink = consumption kind
    /// (0 push, 1 insert front, 2 splice item, 3 downcast-like clone into pool via temp vec)
    fn op_lazy(&mut self, st: &Step, p: &mut Pred) {
        let slot = p.r.slot;
        let len = self.len(slot);
        let other = self.pick_other(slot, st.other as usize);
        if !self.info.cloneable || len == 0 || other.is_none() {
            p.r.op = Op::Nop;
            return;
        }
        let o = other.unwrap();
        p.r.other = o;
        p.r.kind = st.kind % 4;
        p.r.form = 1 + st.form % 3;
        p.r.sink = st.sink % 4;
        let room = if p.r.sink == 3 {
            usize::MAX
        } else {
            match self.fixed_cap(o) {
                Some(c) => c.saturating_sub(self.len(o)),
                None => usize::MAX,
            }
        };
        let n = ((st.n % 4) as usize).min(room);
        p.r.n = n;
        p.r.i = idx(st.a, len);
        p.nontrivial = true;
        let i = p.r.i;
        let t = self.tags(slot)[i];
        p.relax = self.relax_base(&[slot, o], &vec![t; n]);
        p.ev.push(Ev::Val(t));
        for k in 0..n {
            self.born(t);
            self.clones += 1;
            p.clones += 1;
            match p.r.sink {
                0 => self.tags_mut(o).push(t),
                1 => self.tags_mut(o).insert(0, t),
                2 => {
                    // splice(0..0, [lazy]) == insert front
                    let _ = k;
                    self.tags_mut(o).insert(0, t)
                }
                _ => self.pool.push(t),
            }
        }
        // after the consumptions the source handle is consumed "normally"
        match p.r.kind {
            0 | 1 => {}
            2 => {
                // removal handle dropped: element removed and destroyed
                self.tags_mut(slot).remove(i);
                self.died(t);
            }
            _ => {
                // drained single element i..i+1, item dropped
                self.tags_mut(slot).remove(i);
                self.died(t);
            }
        }
        p.ev.push(Ev::Bool(true));
    }

    /// All vectors dropped, pool dropped.
    pub fn teardown(&mut self) {
        for s in 0..3 {
            if let Some(v) = self.vecs[s].take() {
                for t in v.tags {
                    self.died(t);
                }
            }
        }
        for t in std::mem::take(&mut self.pool) {
            self.died(t);
        }
    }
}
