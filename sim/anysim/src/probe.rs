//! C18 boundary probes: one capacity request per sub-process, because a valid but
//! huge request legitimately ends in `handle_alloc_error` (abort). What must never
//! happen is that a request with an invalid layout (size overflowing isize) reaches
//! the allocator: the monitor notes it in the black box before refusing it.

use simadapter::any_vec::mem::Heap;
use simadapter::any_vec::traits::None as TNone;
use simadapter::any_vec::AnyVec;
use simadapter::elems::*;
use simcore::registry::lib;

pub const PROBE_ELEMS: [(&str, usize, usize); 9] =
    [("B1", 1, 1), ("B2", 2, 2), ("D3", 3, 1), ("D8", 8, 8), ("D12", 12, 4), ("D16a16", 16, 16), ("D24", 24, 8), ("D160", 160, 8), ("B64a64", 64, 64)];

fn go<E: Elem>(kind: &str, n: usize, prefill: usize) -> i32 {
    simcore::simalloc::begin_run(true, true);
    let r = std::panic::catch_unwind(|| {
        let mut v: AnyVec<dyn TNone, Heap> = match kind {
            "with_capacity" => lib(|| AnyVec::with_capacity::<E>(n)),
            _ => lib(|| AnyVec::new::<E>()),
        };
        for k in 0..prefill {
            lib(|| v.push(simadapter::any_vec::any_value::AnyValueWrapper::new(E::make(k as u64 % E::TAG_MOD.min(200)))));
        }
        match kind {
            "reserve" => lib(|| v.reserve(n)),
            "reserve_exact" => lib(|| v.reserve_exact(n)),
            _ => {}
        }
        let cap = lib(|| v.capacity());
        lib(|| drop(v));
        cap
    });
    match r {
        Err(_) => {
            println!("panicked");
            0
        }
        Ok(cap) => {
            println!("returned capacity={}", cap);
            0
        }
    }
}

pub fn run(elem: &str, kind: &str, n: usize, prefill: usize) -> i32 {
    match elem {
        "B1" => go::<B1>(kind, n, prefill),
        "B2" => go::<B2>(kind, n, prefill),
        "D3" => go::<D3>(kind, n, prefill),
        "D8" => go::<D8>(kind, n, prefill),
        "D12" => go::<D12>(kind, n, prefill),
        "D16a16" => go::<D16a16>(kind, n, prefill),
        "D24" => go::<D24>(kind, n, prefill),
        "D160" => go::<D160>(kind, n, prefill),
        "B64a64" => go::<B64a64>(kind, n, prefill),
        _ => 2,
    }
}

/// capacities around the overflow boundaries for an element of `size` / `align`
pub fn boundary_values(size: usize, align: usize) -> Vec<usize> {
    let imax = isize::MAX as usize;
    let mut v = Vec::new();
    for base in [imax / size, (imax - (align - 1)) / size, usize::MAX / size, imax / size / 2] {
        for d in [-2i64, -1, 0, 1, 2] {
            let x = (base as i128 + d as i128).clamp(1, usize::MAX as i128) as usize;
            v.push(x);
        }
    }
    v.push(usize::MAX);
    v.push(usize::MAX - 1);
    v.push(imax);
    v.push(imax + 1);
    v.push(1usize << 62);
    v.push(1usize << 63);
    v.sort_unstable();
    v.dedup();
    v
}
