//! anysim: deterministic simulation of `any_vec` against its environment seams.
//!
//!   anysim check <prop> <quick|thorough>      parent: workers, triage, minimise, evidence; exit 0/1/2
//!   anysim worker <prop> <tier> <seed> <lo> <hi> <outdir> <wid>
//!   anysim replay <file> [--trace]            re-run one scenario file; exit 1 if it violates
//!   anysim run <prop> <seed> <index> [--trace]
//!   anysim emit <prop> <tier> <seed> <index> <variant>   print the scenario text of one variant
//!   anysim list-worlds
//!   anysim selftest-determinism <prop> <n>

#[cfg(feature = "alloc")]
mod probe;
mod world_table;

use simcore::exec::{self, Class, ExecOpts, RunReport, Violation, PROBE_NAMES};
use simcore::gen::{generate, Generated, Profile};
use simcore::profiles::{owned, profile};
use simcore::scn;
use simcore::simalloc::SimAlloc;
use simcore::types::*;
use std::collections::{BTreeMap, HashSet};
use std::io::Write;
use std::time::Instant;

#[global_allocator]
static GLOBAL: SimAlloc = SimAlloc;

const VERIF_DEFAULT: &str = "/verif";

/// Output root (work/, replays/, evidence/). `ANYSIM_HOME` redirects it for isolated campaigns;
/// KNOWN_FINDINGS.txt is always read from /verif.
fn home() -> String {
    std::env::var("ANYSIM_HOME").unwrap_or_else(|_| VERIF_DEFAULT.to_string())
}

static HEARTBEAT: std::sync::atomic::AtomicU64 = std::sync::atomic::AtomicU64::new(0);
#[inline]
fn beat() {
    HEARTBEAT.fetch_add(1, std::sync::atomic::Ordering::Relaxed);
}
/// A run that makes no progress for `secs` seconds (a loop over a corrupted length, say)
/// is turned into a process abort, which the parent reports through the crash channel.
fn start_watchdog(secs: u64) {
    std::thread::spawn(move || {
        let mut last = HEARTBEAT.load(std::sync::atomic::Ordering::Relaxed);
        let mut since = Instant::now();
        loop {
            std::thread::sleep(std::time::Duration::from_millis(250));
            let now = HEARTBEAT.load(std::sync::atomic::Ordering::Relaxed);
            if now != last {
                last = now;
                since = Instant::now();
            } else if since.elapsed().as_secs() >= secs {
                simcore::blackbox::note_hang();
                eprintln!("anysim: run made no progress for {} s - aborting (reported as a hang)", secs);
                std::process::abort();
            }
        }
    });
}

fn die2(msg: &str) -> ! {
    eprintln!("anysim: harness error: {}", msg);
    std::process::exit(2);
}

fn world_infos() -> Vec<WorldInfo> {
    let mut v = Vec::new();
    for (id, _) in world_table::ids() {
        if let Some(w) = world_table::make(id) {
            v.push(w.info());
        }
    }
    v
}

fn memcheck_engine() -> bool {
    std::env::var("ANYSIM_ENGINE").map(|v| v == "valgrind").unwrap_or(false)
}

fn opts_for(prof: &Profile) -> ExecOpts {
    let mc = memcheck_engine();
    // under memcheck the simulator's own storage instrumentation is off: the tool supplies red zones,
    // definedness and freed-block tracking on the plain malloc blocks
    ExecOpts { focus: None, free_place: prof.free_place, poison_spare: !mc, alloc_monitor: !mc, trace: false, prop: prof.prop.to_string(), memcheck: mc }
}

/// Command that runs this executable, under Valgrind when the memcheck engine is selected.
fn engine_command(exe: &std::path::Path, log: &str) -> std::process::Command {
    if memcheck_engine() {
        let mut c = std::process::Command::new("valgrind");
        c.args(["--quiet", "--error-exitcode=0", "--leak-check=no", "--undef-value-errors=yes", "--num-callers=16", &format!("--log-file={}", log)]);
        c.arg(exe);
        c
    } else {
        std::process::Command::new(exe)
    }
}

#[derive(Clone, Copy)]
struct Tier {
    runs: u64,
    /// wall-clock cap for the batch in seconds
    cap_s: u64,
    variants: usize,
}
fn tier_for(prop: &str, tier: &str) -> Tier {
    if tier == "thorough-checked" {
        // second engine of the thorough tier: the same simulator built with debug assertions and
        // overflow checks (library debug_assert!s and arithmetic overflow become panics)
        let mut t = Tier { runs: 20_000_000, cap_s: 120, variants: 0 };
        t.variants = match prop {
            "C06" => 48,
            "C07" => 24,
            "C05" => 12,
            "C03" => 4,
            _ => 0,
        };
        if let Some(c) = std::env::var("VERIF_CAP_S").ok().and_then(|s| s.parse::<u64>().ok()) {
            t.cap_s = c;
        }
        return t;
    }
    if tier == "thorough-valgrind" {
        let mut t = Tier { runs: 2_000_000, cap_s: 150, variants: if prop == "C05" { 6 } else if prop == "C03" { 2 } else { 0 } };
        if let Some(c) = std::env::var("VERIF_CAP_S").ok().and_then(|s| s.parse::<u64>().ok()) {
            t.cap_s = c;
        }
        return t;
    }
    let quick = tier != "thorough";
    let env_runs = std::env::var("VERIF_RUNS").ok().and_then(|s| s.parse::<u64>().ok());
    let mut t = match (prop, quick) {
        ("C06", true) => Tier { runs: 24_000, cap_s: 60, variants: 24 },
        ("C06", false) => Tier { runs: 2_000_000, cap_s: 540, variants: 96 },
        ("C07", true) => Tier { runs: 24_000, cap_s: 60, variants: 16 },
        ("C07", false) => Tier { runs: 2_000_000, cap_s: 420, variants: 40 },
        ("C05", true) => Tier { runs: 120_000, cap_s: 60, variants: 10 },
        ("C05", false) => Tier { runs: 20_000_000, cap_s: 540, variants: 24 },
        ("C03", true) => Tier { runs: 160_000, cap_s: 45, variants: 3 },
        ("C03", false) => Tier { runs: 20_000_000, cap_s: 420, variants: 8 },
        (_, true) => Tier { runs: 160_000, cap_s: 45, variants: 0 },
        (_, false) => Tier { runs: 50_000_000, cap_s: 420, variants: 0 },
    };
    if let Some(r) = env_runs {
        t.runs = r;
    }
    if let Some(c) = std::env::var("VERIF_CAP_S").ok().and_then(|s| s.parse::<u64>().ok()) {
        t.cap_s = c;
    }
    t
}

fn batch_seed() -> u64 {
    std::env::var("VERIF_SEED").ok().and_then(|s| s.parse::<u64>().ok()).unwrap_or(20260927)
}

// ---------------------------------------------------------------------------------------------
// variants: fault / cancellation enumeration for one generated history
// ---------------------------------------------------------------------------------------------

fn spread(n: u64, cap: usize) -> Vec<u64> {
    if cap == 1 && n > 1 {
        return vec![(n + 1) / 2];
    }
    if n as usize <= cap {
        (1..=n).collect()
    } else {
        // first, last and an even spread in between
        let mut v: Vec<u64> = (0..cap as u64).map(|i| 1 + i * (n - 1) / (cap as u64 - 1)).collect();
        v.dedup();
        v
    }
}

/// All variants of a base scenario for the fault-enumerating properties. Variant 0 is the base.
fn variants(prop: &str, g: &Generated, base_rep: &RunReport, cap: usize) -> Vec<Scenario> {
    let mut out = Vec::new();
    let fs = match g.focus_step {
        Some(f) => f,
        None => return out,
    };
    let fc = &base_rep.focus;
    let mut add = |kind: u8, k: u32, delta: i32| {
        let mut s = g.scn.clone();
        s.faults.push(Fault { step: fs as u32, kind, k, delta });
        out.push(s);
    };
    match prop {
        "C06" => {
            let per = (cap / 4).max(2);
            for k in spread(fc.drops, per) {
                add(F_DROP_PANIC, k as u32, 0);
            }
            for k in spread(fc.clones, per) {
                add(F_CLONE_PANIC, k as u32, 0);
            }
            // next() may be called once more than the honest count (the terminating None)
            for k in spread(fc.nexts, per) {
                add(F_NEXT_PANIC, k as u32, 0);
            }
            for k in spread(fc.mem_calls, 3) {
                add(F_MEM_FAIL, k as u32, 0);
            }
            if g.scn.steps[fs].op == Op::Splice {
                for d in [-2, -1, 1, 2] {
                    add(F_LEN_LIE, 0, d);
                }
            }
        }
        "C05" => {
            // a replacement iterator that misreports its length, or panics, must not make the
            // vector expose storage it never wrote
            if g.scn.steps[fs].op == Op::Splice {
                for d in [-1, 1, 2] {
                    add(F_LEN_LIE, 0, d);
                }
                for k in spread(fc.nexts, 1) {
                    add(F_NEXT_PANIC, k as u32, 0);
                }
            }
            let mem = spread(fc.mem_calls, (cap / 2).max(1));
            for k in mem.iter().take(3) {
                add(F_MEM_FAIL, *k as u32, 0);
            }
            // nor must a panic in an element's Clone or Drop
            for k in spread(fc.clones, 2) {
                add(F_CLONE_PANIC, k as u32, 0);
            }
            for k in spread(fc.drops, 2) {
                add(F_DROP_PANIC, k as u32, 0);
            }
            for k in mem.iter().skip(3) {
                add(F_MEM_FAIL, *k as u32, 0);
            }
        }
        "C03" => {
            // ... and when the replacement iterator of a splice misreports its length or panics
            // (surplus or missing items must not become duplicates or dead-but-reachable values)
            if g.scn.steps[fs].op == Op::Splice {
                for d in [-1, 1] {
                    add(F_LEN_LIE, 0, d);
                }
                for k in spread(fc.nexts, 1) {
                    add(F_NEXT_PANIC, k as u32, 0);
                }
            }
            // exactly-once destruction also when a destructor or a clone panics half-way
            for k in spread(fc.drops, (cap * 2 / 3).max(1)) {
                add(F_DROP_PANIC, k as u32, 0);
            }
            for k in spread(fc.clones, (cap / 3).max(1)) {
                add(F_CLONE_PANIC, k as u32, 0);
            }
        }
        "C07" => {
            let st = &g.scn.steps[fs];
            if matches!(st.op, Op::Drain | Op::Splice) {
                // forget at every stage: f front items, b back items, f + b <= 4, sinks cycling
                let sinks = [ITEM_DROP, ITEM_KEEP, ITEM_MOVE, ITEM_FORGET, ITEM_INSPECT];
                let mut n = 0usize;
                'outer: for total in 0..=4usize {
                    for fr in 0..=total {
                        let b = total - fr;
                        for order in 0..2 {
                            if order == 1 && (fr == 0 || b == 0) {
                                continue;
                            }
                            let mut script = Vec::new();
                            for k in 0..total {
                                let back = if order == 0 { k >= fr } else { k % 2 == 0 && k / 2 < b || k >= 2 * fr.min(b) && b > fr };
                                let sink = sinks[(k + n) % sinks.len()];
                                script.push(back as u8 | (sink << 1));
                            }
                            let mut s = g.scn.clone();
                            s.steps[fs].script = script;
                            out.push(s);
                            n += 1;
                            if n >= cap {
                                break 'outer;
                            }
                        }
                    }
                }
            }
        }
        _ => {}
    }
    out.truncate(cap);
    out
}

// ---------------------------------------------------------------------------------------------
// worker
// ---------------------------------------------------------------------------------------------

#[derive(Default)]
struct Agg {
    runs: u64,
    base_runs: u64,
    steps: u64,
    events: u64,
    seam: u64,
    nontrivial_runs: u64,
    relaxed_steps: u64,
    relocations: u64,
    max_len: usize,
    fired: [u64; 13],
    probes: [u64; 16],
    op_nt: [u64; 22],
    foreign: u64,
    foreign_sigs: BTreeMap<String, (u64, String)>,
    unsupported: u64,
    scen_hashes: HashSet<u64>,
    states: HashSet<u64>,
    worlds: HashSet<u32>,
    focus_seen: HashSet<u64>,
    samples: Vec<String>,
    log_hash: u64,
}

impl Agg {
    fn absorb(&mut self, scn_: &Scenario, rep: &RunReport, relevant: bool) {
        self.runs += 1;
        self.steps += rep.steps as u64;
        self.events += rep.events;
        self.seam += rep.seam_events;
        self.relaxed_steps += rep.relaxed_steps as u64;
        self.relocations += rep.relocations;
        self.max_len = self.max_len.max(rep.max_len);
        for i in 0..13 {
            self.fired[i] += rep.faults_fired[i] as u64;
        }
        for i in 0..16 {
            if rep.probes & (1 << i) != 0 {
                self.probes[i] += 1;
            }
        }
        for i in 0..22 {
            self.op_nt[i] += rep.op_nontrivial[i] as u64;
        }
        if relevant {
            self.nontrivial_runs += 1;
            // bounded (the count is then a lower bound)
            if self.scen_hashes.len() < 2_000_000 {
                self.scen_hashes.insert(scn::scenario_hash(scn_));
            }
        }
        if self.states.len() < 2_000_000 {
            for s in &rep.abstract_states {
                self.states.insert(*s);
            }
        }
        self.worlds.insert(scn_.world);
        self.log_hash = self.log_hash.rotate_left(7) ^ rep.hash;
    }
}

/// Is this run non-trivial for the property: its oracle was evaluated on a non-empty
/// vector in a step of the relevant kind (resp. its fault fired).
fn relevant(prop: &str, rep: &RunReport) -> bool {
    let nt = |ops: &[Op]| ops.iter().any(|o| rep.op_nontrivial[*o as usize] > 0);
    match prop {
        "C01" => nt(&[Op::Put, Op::Take, Op::Clear, Op::Get, Op::Iter]),
        "C02" | "C14" => nt(&[Op::Drain, Op::Splice, Op::Iter]),
        "C04" => nt(&[Op::TypeProbe]),
        "C06" => rep.faults_fired[1] + rep.faults_fired[2] + rep.faults_fired[3] + rep.faults_fired[4] + rep.faults_fired[6] > 0,
        "C07" => rep.faults_fired[5] > 0,
        "C08" => nt(&[Op::CloneVec, Op::CloneEmpty, Op::CloneEmptyIn]),
        "C09" => nt(&[Op::Lazy]) || rep.nontrivial_steps > 0,
        "C10" => nt(&[Op::Cap, Op::PushRun, Op::New]),
        "C12" => nt(&[Op::Views, Op::MoveVec]) || rep.nontrivial_steps > 0,
        "C13" => nt(&[Op::Get, Op::Mutate, Op::Swap]),
        "C17" => nt(&[Op::RawTrip]),
        _ => rep.nontrivial_steps > 0,
    }
}

struct Found {
    scn: Scenario,
    v: Violation,
}

fn run_one(prop: &str, prof: &Profile, s: &Scenario, focus: Option<usize>, trace: bool) -> RunReport {
    let mut w = match world_table::make(s.world) {
        Some(w) => w,
        None => die2(&format!("world {} is not part of this build", s.world)),
    };
    let mut o = opts_for(prof);
    o.focus = focus;
    o.trace = trace;
    let _ = prop;
    exec::run(s, &mut *w, &o)
}

fn worker(args: &[String]) {
    let prop = args[0].as_str();
    let tier = args[1].as_str();
    let seed: u64 = args[2].parse().unwrap();
    let lo: u64 = args[3].parse().unwrap();
    let hi: u64 = args[4].parse().unwrap();
    let outdir = args[5].as_str();
    let wid = args[6].as_str();
    let deadline_s: u64 = args.get(7).and_then(|s| s.parse().ok()).unwrap_or(3600);
    let prof = profile(prop).unwrap_or_else(|| die2("unknown property"));
    let t = tier_for(prop, tier);
    let infos = world_infos();
    simcore::registry::install_hook();
    simcore::blackbox::open(&format!("{}/bb-{}", outdir, wid));
    start_watchdog(if memcheck_engine() { 300 } else { 15 });
    let start = Instant::now();
    let mut agg = Agg::default();
    let mut found: Vec<Found> = Vec::new();
    let mut seen_sigs: HashSet<String> = HashSet::new();
    let mut worlds: BTreeMap<u32, Box<dyn WorldOps>> = BTreeMap::new();
    let mut last = lo;
    let mut index = lo;
    while index < hi {
        if index % 64 == 0 && start.elapsed().as_secs() >= deadline_s {
            break;
        }
        let g = generate(seed, index, &prof, &infos);
        let mut todo: Vec<Scenario> = vec![g.scn.clone()];
        let mut vi = 0u32;
        let mut base_rep: Option<RunReport> = None;
        while let Some(s) = todo.pop() {
            simcore::blackbox::note_run(seed, index, 1, vi);
            beat();
            let w = worlds.entry(s.world).or_insert_with(|| world_table::make(s.world).unwrap());
            let mut o = opts_for(&prof);
            o.focus = if vi == 0 { g.focus_step } else { None };
            let rep = exec::run(&s, &mut **w, &o);
            let rel = relevant(prop, &rep);
            agg.absorb(&s, &rep, rel && rep.violation.is_none());
            if vi == 0 {
                agg.base_runs += 1;
                if let Some(f) = g.focus {
                    agg.focus_seen.insert((f.op as u64) | (f.kind as u64) << 8 | (f.via as u64) << 16 | (f.sink as u64) << 24 | (f.form as u64) << 32);
                }
            }
            if agg.samples.len() < 3 && rel && rep.violation.is_none() && s.steps.len() <= 24 {
                agg.samples.push(scn::to_text(&s, &infos.iter().find(|i| i.id == s.world).unwrap().name(), prop, "-", ""));
            }
            if let Some(v) = &rep.violation {
                if v.class == Class::Unsupported {
                    agg.unsupported += 1;
                    if found.len() < 40 && seen_sigs.insert(v.signature()) {
                        found.push(Found { scn: s.clone(), v: v.clone() });
                    }
                } else if owned(prop, v) {
                    let sig = v.signature();
                    if found.len() < 40 && seen_sigs.insert(sig) {
                        found.push(Found { scn: s.clone(), v: v.clone() });
                    }
                } else {
                    agg.foreign += 1;
                    let e = agg.foreign_sigs.entry(v.signature()).or_insert((0, format!("index {} variant {}: {}", index, vi, v.detail)));
                    e.0 += 1;
                }
            }
            if vi == 0 {
                if rep.violation.is_none() && t.variants > 0 {
                    let mut vs = variants(prop, &g, &rep, t.variants);
                    vs.reverse();
                    todo = vs;
                }
                base_rep = Some(rep);
            }
            vi += 1;
        }
        let _ = base_rep;
        index += 1;
        last = index;
    }
    simcore::blackbox::note_run(seed, last, 2, 0);
    // result file
    let mut o = String::new();
    o.push_str(&format!(
        "stat runs={} base={} steps={} events={} seam={} nontrivial={} relaxed={} reloc={} maxlen={} foreign={} unsupported={} done={} loghash={}\n",
        agg.runs, agg.base_runs, agg.steps, agg.events, agg.seam, agg.nontrivial_runs, agg.relaxed_steps, agg.relocations, agg.max_len, agg.foreign, agg.unsupported, last, agg.log_hash
    ));
    o.push_str(&format!("fired {}\n", agg.fired.iter().map(|x| x.to_string()).collect::<Vec<_>>().join(" ")));
    o.push_str(&format!("probes {}\n", agg.probes.iter().map(|x| x.to_string()).collect::<Vec<_>>().join(" ")));
    o.push_str(&format!("opnt {}\n", agg.op_nt.iter().map(|x| x.to_string()).collect::<Vec<_>>().join(" ")));
    o.push_str(&format!("worlds {}\n", agg.worlds.iter().map(|x| x.to_string()).collect::<Vec<_>>().join(" ")));
    o.push_str(&format!("focus {}\n", agg.focus_seen.iter().map(|x| format!("{:x}", x)).collect::<Vec<_>>().join(" ")));
    o.push_str(&format!("hashes {}\n", agg.scen_hashes.iter().map(|x| format!("{:x}", x)).collect::<Vec<_>>().join(" ")));
    o.push_str(&format!("states {}\n", agg.states.iter().map(|x| format!("{:x}", x)).collect::<Vec<_>>().join(" ")));
    for (sig, (n, d)) in agg.foreign_sigs.iter() {
        o.push_str(&format!("foreign {} {} {}\n", n, sig, d.replace('\n', " ")));
    }
    for (k, s) in agg.samples.iter().enumerate() {
        std::fs::write(format!("{}/sample-{}-{}.scn", outdir, wid, k), s).ok();
    }
    for (k, f) in found.iter().enumerate() {
        let name = infos.iter().find(|i| i.id == f.scn.world).map(|i| i.name()).unwrap_or_default();
        let txt = scn::to_text(&f.scn, &name, prop, &f.v.signature(), &format!("step {}: {}", f.v.step, f.v.detail));
        std::fs::write(format!("{}/viol-{}-{}.scn", outdir, wid, k), txt).ok();
        o.push_str(&format!("viol {} {}\n", k, f.v.signature()));
    }
    std::fs::write(format!("{}/res-{}", outdir, wid), o).ok();
}

// ---------------------------------------------------------------------------------------------
// shrinking
// ---------------------------------------------------------------------------------------------

fn violates(prop: &str, prof: &Profile, s: &Scenario, class: Class, crash: bool) -> Option<Violation> {
    if crash {
        // each candidate in a fresh process
        let tmp = format!("{}/work/shrink-{}.scn", &home(), std::process::id());
        std::fs::write(&tmp, scn::to_text(s, "", prop, "crash", "")).ok()?;
        let st = std::process::Command::new(std::env::current_exe().ok()?).args(["replay", &tmp, "--quiet"]).output().ok()?;
        let died = st.status.code().is_none() || st.status.code() == Some(134);
        return if died { Some(crash_violation(s, &world_infos(), "process terminated".into())) } else { None };
    }
    let rep = run_one(prop, prof, s, None, false);
    match rep.violation {
        Some(v) if v.class == class && (owned(prop, &v) || class == Class::Unsupported) => Some(v),
        _ => None,
    }
}

/// A crash is attributed to the last step of the scenario (the one it died in once minimised).
fn crash_violation(s: &Scenario, infos: &[WorldInfo], detail: String) -> Violation {
    let last = s.steps.last();
    let info = infos.iter().find(|i| i.id == s.world);
    let on_stack = match (last, info) {
        (Some(st), Some(i)) => i.be_of((st.slot % 3) as usize).on_stack() || i.be_of((st.other % 3) as usize).on_stack(),
        _ => false,
    };
    let faulted = s.faults.last().map(|f| f.kind).unwrap_or_else(|| {
        let forget = last.map(|st| (st.op == Op::Take && st.sink == SINK_FORGET) || (matches!(st.op, Op::Drain | Op::Splice) && (st.sink % 2 == END_FORGET || st.script.iter().any(|b| (b >> 1) % ITEM_KINDS == ITEM_FORGET)))).unwrap_or(false);
        if forget { 5 } else { 0 }
    });
    Violation { class: Class::Crash, step: s.steps.len() as i32 - 1, op: last.map(|st| st.op).unwrap_or(Op::Nop), via: last.map(|st| st.via % 3).unwrap_or(0), sink: last.map(|st| st.sink).unwrap_or(0), on_stack, faulted, panic_involved: false, ownership: false, context: String::new(), detail }
}

fn without_steps(s: &Scenario, from: usize, to: usize) -> Option<Scenario> {
    // a faulted step cannot be removed; faults after the removed chunk shift
    let mut out = s.clone();
    if s.faults.iter().any(|f| (f.step as usize) >= from && (f.step as usize) < to) {
        return None;
    }
    out.steps.drain(from..to);
    for f in out.faults.iter_mut() {
        if f.step as usize >= to {
            f.step -= (to - from) as u32;
        }
    }
    Some(out)
}

fn shrink(prop: &str, prof: &Profile, s0: &Scenario, v0: &Violation, budget_s: u64) -> (Scenario, Violation) {
    let start = Instant::now();
    let class = v0.class;
    let crash = class == Class::Crash;
    let mut best = s0.clone();
    let mut bestv = v0.clone();
    let ok_time = |st: &Instant| st.elapsed().as_secs() < budget_s;
    // 0. cut everything after the violating step
    if v0.step >= 0 && (v0.step as usize) + 1 < best.steps.len() {
        let mut c = best.clone();
        c.steps.truncate(v0.step as usize + 1);
        if let Some(v) = violates(prop, prof, &c, class, crash) {
            best = c;
            bestv = v;
        }
    }
    // 1. delete chunks, then single steps
    let mut chunk = (best.steps.len() / 2).max(1);
    while chunk >= 1 && ok_time(&start) {
        let mut i = 0;
        let mut progressed = false;
        while i < best.steps.len() && ok_time(&start) {
            let to = (i + chunk).min(best.steps.len());
            if let Some(c) = without_steps(&best, i, to) {
                if let Some(v) = violates(prop, prof, &c, class, crash) {
                    best = c;
                    bestv = v;
                    progressed = true;
                    continue;
                }
            }
            i += chunk;
        }
        if chunk == 1 && !progressed {
            break;
        }
        if !progressed || chunk > 1 {
            chunk = if chunk > 1 { chunk / 2 } else { 1 };
        }
    }
    // 2. drop faults
    let mut fi = 0;
    while fi < best.faults.len() && ok_time(&start) {
        let mut c = best.clone();
        c.faults.remove(fi);
        if let Some(v) = violates(prop, prof, &c, class, crash) {
            best = c;
            bestv = v;
        } else {
            fi += 1;
        }
    }
    // 3. simplify fields
    let mut changed = true;
    while changed && ok_time(&start) {
        changed = false;
        for i in 0..best.steps.len() {
            let cands: Vec<Box<dyn Fn(&mut Step)>> = vec![
                Box::new(|s: &mut Step| s.script.clear()),
                Box::new(|s: &mut Step| {
                    s.script.pop();
                }),
                Box::new(|s: &mut Step| s.sink = 0),
                Box::new(|s: &mut Step| s.kind = 0),
                Box::new(|s: &mut Step| s.via = 0),
                Box::new(|s: &mut Step| s.form = 0),
                Box::new(|s: &mut Step| s.n = 0),
                Box::new(|s: &mut Step| s.n /= 2),
                Box::new(|s: &mut Step| s.a = 0),
                Box::new(|s: &mut Step| s.b = 0),
                Box::new(|s: &mut Step| s.c = 0),
                Box::new(|s: &mut Step| {
                    if s.a > 0 && s.a < (1 << 62) {
                        s.a -= 1
                    }
                }),
                Box::new(|s: &mut Step| {
                    if s.op == Op::PushRun {
                        s.n = s.n.saturating_sub(1)
                    }
                }),
            ];
            for cnd in cands.iter() {
                if !ok_time(&start) {
                    break;
                }
                let mut c = best.clone();
                cnd(&mut c.steps[i]);
                if c.steps[i] == best.steps[i] {
                    continue;
                }
                if let Some(v) = violates(prop, prof, &c, class, crash) {
                    best = c;
                    bestv = v;
                    changed = true;
                }
            }
        }
        // policy / placement simplification
        let mut c = best.clone();
        c.policy = EnvPolicy { relocate: 0, over_expand: 0, over_exact: 0, realloc_moves: 1, salt: 0 };
        c.place = [0, 0, 0];
        if c != best {
            if let Some(v) = violates(prop, prof, &c, class, crash) {
                best = c;
                bestv = v;
                changed = true;
            }
        }
    }
    (best, bestv)
}

// ---------------------------------------------------------------------------------------------
// known findings
// ---------------------------------------------------------------------------------------------

struct Known {
    prop: String,
    sig: String,
    text: String,
}
fn known_findings() -> Vec<Known> {
    let mut v = Vec::new();
    if let Ok(t) = std::fs::read_to_string(format!("{}/KNOWN_FINDINGS.txt", VERIF_DEFAULT)) {
        for l in t.lines() {
            let l = l.trim();
            if let Some(rest) = l.strip_prefix("finding:") {
                let mut prop = String::new();
                let mut sig = String::new();
                let mut words = Vec::new();
                for tok in rest.split_whitespace() {
                    if let Some(p) = tok.strip_prefix("property=") {
                        prop = p.to_string();
                    } else if let Some(s) = tok.strip_prefix("sig=") {
                        sig = s.to_string();
                    } else {
                        words.push(tok);
                    }
                }
                v.push(Known { prop, sig, text: words.join(" ") });
            }
        }
    }
    v
}

// ---------------------------------------------------------------------------------------------
// parent
// ---------------------------------------------------------------------------------------------

fn json_str(s: &str) -> String {
    let mut o = String::from("\"");
    for c in s.chars() {
        match c {
            '"' => o.push_str("\\\""),
            '\\' => o.push_str("\\\\"),
            '\n' => o.push_str("\\n"),
            '\t' => o.push_str("\\t"),
            c if (c as u32) < 0x20 => o.push_str(&format!("\\u{:04x}", c as u32)),
            c => o.push(c),
        }
    }
    o.push('"');
    o
}

fn level_of(prop: &str) -> &'static str {
    match prop {
        "C06" | "C07" => "fault_enumeration",
        _ => "exploration",
    }
}

/// Per-index (scenario hash, event-log hash, violation signature) computed by `exe`
/// in `jobs` parallel processes.
fn hash_sweep(exe: &std::path::Path, prop: &str, n: u64, jobs: u64) -> BTreeMap<u64, String> {
    let per = (n + jobs - 1) / jobs;
    let mut kids = Vec::new();
    for j in 0..jobs {
        let lo = j * per;
        let cnt = per.min(n.saturating_sub(lo));
        if cnt == 0 {
            continue;
        }
        let c = std::process::Command::new(exe)
            .args(["selftest-determinism", prop, &cnt.to_string(), &lo.to_string()])
            .stdout(std::process::Stdio::piped())
            .spawn()
            .unwrap_or_else(|e| die2(&format!("spawn {:?}: {}", exe, e)));
        kids.push(c);
    }
    let mut m = BTreeMap::new();
    // one reader per child: a child whose pipe is not being read stops when the pipe is full
    let readers: Vec<_> = kids.into_iter().map(|c| std::thread::spawn(move || c.wait_with_output())).collect();
    for t in readers {
        let o = t.join().unwrap_or_else(|_| die2("reader thread")).unwrap_or_else(|e| die2(&format!("wait: {}", e)));
        for l in String::from_utf8_lossy(&o.stdout).lines() {
            if let Some((i, rest)) = l.split_once(' ') {
                if let Ok(i) = i.parse::<u64>() {
                    m.insert(i, rest.to_string());
                }
            }
        }
    }
    m
}

/// C19: the same seeds on the build without the `alloc` feature must give the same event
/// logs; the no-alloc library artefact must not contain a heap back end or allocator calls.
fn c19_differential(prop: &str, tier: &str, reported: &mut Vec<(String, String, String)>, infos: &[WorldInfo]) -> String {
    let exe = std::env::current_exe().unwrap();
    let mut na = std::path::PathBuf::from(format!("{}/target-noalloc/release/anysim", &home()));
    if !na.exists() {
        // output redirected (ANYSIM_HOME): the no-alloc build lies next to this build's target directory
        if let Some(root) = exe.parent().and_then(|d| d.parent()).and_then(|d| d.parent()) {
            na = root.join("target-noalloc/release/anysim");
        }
    }
    if !na.exists() {
        die2("no-alloc build of anysim is missing (run ./check --build-only)");
    }
    let n: u64 = std::env::var("VERIF_RUNS").ok().and_then(|s| s.parse().ok()).unwrap_or(if tier == "thorough" { 1_500_000 } else { 60_000 });
    let a = hash_sweep(&exe, prop, n, 16);
    let b = hash_sweep(&na, prop, n, 16);
    let mut diffs = 0u64;
    let mut first: Option<u64> = None;
    for i in 0..n {
        if a.get(&i) != b.get(&i) {
            diffs += 1;
            if first.is_none() {
                first = Some(i);
            }
        }
    }
    if let Some(i) = first {
        let seed = batch_seed();
        let out = std::process::Command::new(&exe).args(["emit", prop, tier, &seed.to_string(), &i.to_string(), "0"]).output().unwrap_or_else(|e| die2(&format!("emit: {}", e)));
        let path = format!("{}/replays/{}-diff-{}.replay", &home(), prop, i);
        let mut txt = String::from_utf8_lossy(&out.stdout).to_string();
        txt = txt.replace("expect crash", "expect build-differential");
        txt.push_str(&format!("# default build : {}\n# no-alloc build: {}\n", a.get(&i).cloned().unwrap_or_default(), b.get(&i).cloned().unwrap_or_default()));
        std::fs::write(&path, txt).ok();
        reported.push(("build-differential".to_string(), path, format!("run index {}: event log differs between the default and the no-default-features build ({} of {} differ)", i, diffs, n)));
    }
    // artefact inspection (build precondition, not simulation)
    let mut heap_syms = 0usize;
    let mut alloc_refs = 0usize;
    let mut inspected = String::from("no libany_vec rlib found");
    if let Ok(rd) = std::fs::read_dir(na.parent().map(|d| d.join("deps")).unwrap_or_default()) {
        for e in rd.flatten() {
            let name = e.file_name().to_string_lossy().to_string();
            if name.starts_with("libany_vec-") && name.ends_with(".rlib") {
                if let Ok(o) = std::process::Command::new("nm").arg(e.path()).output() {
                    let t = String::from_utf8_lossy(&o.stdout);
                    heap_syms = t.lines().filter(|l| l.contains("3mem4heap")).count();
                    alloc_refs = t.lines().filter(|l| l.contains("__rust_alloc") || l.contains("__rust_dealloc") || l.contains("__rust_realloc") || l.contains("__rust_alloc_zeroed") || l.contains("__rustc") && l.contains("alloc_error")).count();
                    inspected = name;
                }
            }
        }
    }
    if heap_syms > 0 || alloc_refs > 0 {
        let path = format!("{}/replays/{}-artefact.txt", &home(), prop);
        std::fs::write(&path, format!("{}: {} heap back end symbol(s), {} allocator reference(s) in the no-default-features build\n", inspected, heap_syms, alloc_refs)).ok();
        reported.push(("noalloc-artefact".to_string(), path, format!("no-alloc library artefact contains {} heap back end symbol(s) and {} allocator reference(s)", heap_syms, alloc_refs)));
    }
    let _ = infos;
    format!(
        "    \"differential\": {{\"seeds_compared\": {}, \"differing\": {}, \"default_build_runs\": {}, \"no_alloc_build_runs\": {}}},\n    \"build_preconditions\": {{\"artefact\": {}, \"heap_backend_symbols\": {}, \"allocator_references\": {}, \"note\": \"artefact inspection with nm, not simulation\"}},\n",
        n,
        diffs,
        a.len(),
        b.len(),
        json_str(&inspected),
        heap_syms,
        alloc_refs
    )
}

/// C18: capacity requests at the overflow boundaries, one per sub-process.
#[cfg(feature = "alloc")]
fn c18_probes(tier: &str, workdir: &str, reported: &mut Vec<(String, String, String)>, known: &[Known], known_hit: &mut Vec<(String, String)>) -> String {
    let exe = std::env::current_exe().unwrap();
    let mut total = 0u64;
    let mut panicked = 0u64;
    let mut aborted_valid = 0u64;
    let mut returned = 0u64;
    let mut invalid = 0u64;
    let mut other = 0u64;
    let mut first_invalid: BTreeMap<String, String> = BTreeMap::new();
    let kinds: &[(&str, usize)] = &[("with_capacity", 0), ("reserve", 0), ("reserve", 3), ("reserve_exact", 0), ("reserve_exact", 3)];
    let mut jobs: Vec<(String, String, usize, usize)> = Vec::new();
    for (name, size, align) in probe::PROBE_ELEMS.iter() {
        let mut vals = probe::boundary_values(*size, *align);
        if tier != "thorough" {
            // quick: every other value, boundaries themselves always
            let keep: Vec<usize> = vals.iter().enumerate().filter(|(i, _)| i % 2 == 0).map(|(_, v)| *v).collect();
            vals = keep;
        }
        for (kind, prefill) in kinds {
            for v in &vals {
                jobs.push((name.to_string(), kind.to_string(), *v, *prefill));
            }
        }
    }
    // 16 at a time
    let mut i = 0;
    while i < jobs.len() {
        let chunk = &jobs[i..(i + 16).min(jobs.len())];
        let mut kids = Vec::new();
        for (k, (name, kind, n, prefill)) in chunk.iter().enumerate() {
            let bb = format!("{}/probe-bb-{}", workdir, k);
            let c = std::process::Command::new(&exe)
                .args(["probe", name, kind, &n.to_string(), &prefill.to_string(), &bb])
                .stdout(std::process::Stdio::piped())
                .stderr(std::process::Stdio::null())
                .spawn()
                .unwrap_or_else(|e| die2(&format!("spawn probe: {}", e)));
            kids.push((c, bb, name.clone(), kind.clone(), *n, *prefill));
        }
        for (c, bb, name, kind, n, prefill) in kids {
            let o = c.wait_with_output().unwrap_or_else(|e| die2(&format!("wait probe: {}", e)));
            total += 1;
            let rec = simcore::blackbox::read(&bb).unwrap_or_default();
            let out = String::from_utf8_lossy(&o.stdout).to_string();
            if rec.alloc_code == simcore::simalloc::V_INVALID_LAYOUT {
                invalid += 1;
                let sig = format!("invalid-layout/{}", kind);
                first_invalid.entry(sig).or_insert(format!("{} {}({}) after {} pushes: allocator received size={} align={}", name, kind, n, prefill, rec.a, rec.b));
            } else if o.status.success() && out.starts_with("panicked") {
                panicked += 1;
            } else if o.status.success() && out.starts_with("returned") {
                returned += 1;
            } else if o.status.code().is_none() || o.status.code() == Some(134) {
                aborted_valid += 1;
            } else {
                other += 1;
            }
        }
        i += 16;
    }
    for (sig, detail) in first_invalid {
        if let Some(k) = known.iter().find(|k| k.prop == "C18" && k.sig == sig) {
            known_hit.push((k.sig.clone(), k.text.clone()));
            continue;
        }
        let path = format!("{}/replays/C18-{}.replay", &home(), sig.replace('/', "-"));
        std::fs::write(&path, format!("anysim-probe v1\nproperty C18\n# {}\n# re-run: anysim probe <elem> <kind> <n> <prefill> <blackbox file>\nexpect {}\n", detail, sig)).ok();
        reported.push((sig, path, detail));
    }
    if other > 0 {
        die2("a boundary probe ended in an unexpected way");
    }
    format!(
        "    \"boundary_probes\": {{\"requests\": {}, \"panicked\": {}, \"aborted_after_valid_layout\": {}, \"returned\": {}, \"invalid_layout_reached_allocator\": {}, \"note\": \"one capacity request per sub-process at isize::MAX / usize::MAX boundaries; F12 (allocator refuses) fires for every valid-but-absurd request\"}},\n",
        total, panicked, aborted_valid, returned, invalid
    )
}

fn check(prop: &str, tier: &str) -> i32 {
    let prof = match profile(prop) {
        Some(p) => p,
        None => die2(&format!("no check for property {}", prop)),
    };
    let t = tier_for(prop, tier);
    let seed = batch_seed();
    let jobs: u64 = std::env::var("VERIF_JOBS").ok().and_then(|s| s.parse().ok()).unwrap_or(16);
    let infos = world_infos();
    if !infos.iter().any(|w| (prof.world_ok)(w)) {
        die2("no world eligible");
    }
    let workdir = format!("{}/work/{}-{}-{}", &home(), prop, tier, std::process::id());
    let _ = std::fs::remove_dir_all(&workdir);
    std::fs::create_dir_all(&workdir).unwrap_or_else(|e| die2(&format!("mkdir {}: {}", workdir, e)));
    std::fs::create_dir_all(format!("{}/replays", &home())).ok();
    std::fs::create_dir_all(format!("{}/evidence", &home())).ok();
    let exe = std::env::current_exe().unwrap();
    let start = Instant::now();
    eprintln!("[anysim] property {} tier {} VERIF_SEED={} runs<={} cap={}s jobs={}", prop, tier, seed, t.runs, t.cap_s, jobs);

    // spawn workers over contiguous index ranges; respawn after a crash
    struct W {
        child: std::process::Child,
        wid: String,
        lo: u64,
        hi: u64,
    }
    let per = (t.runs + jobs - 1) / jobs;
    let mut ws: Vec<W> = Vec::new();
    let mut gen = 0u32;
    let spawn = |lo: u64, hi: u64, wid: String, deadline: u64| -> W {
        let child = engine_command(&exe, &format!("{}/memcheck-{}.log", workdir, wid))
            .args(["worker", prop, tier, &seed.to_string(), &lo.to_string(), &hi.to_string(), &workdir, &wid, &deadline.to_string()])
            .spawn()
            .unwrap_or_else(|e| die2(&format!("spawn worker: {}", e)));
        W { child, wid, lo, hi }
    };
    for j in 0..jobs {
        let lo = j * per;
        let hi = ((j + 1) * per).min(t.runs);
        if lo < hi {
            ws.push(spawn(lo, hi, format!("{}g{}", j, gen), t.cap_s));
        }
    }
    let mut crashes: Vec<(u64, u32, String)> = Vec::new();
    let mut res_files: Vec<String> = Vec::new();
    let mut harness_err = false;
    while let Some(mut w) = ws.pop() {
        let st = w.child.wait().unwrap_or_else(|e| die2(&format!("wait: {}", e)));
        if st.success() {
            res_files.push(format!("{}/res-{}", workdir, w.wid));
            continue;
        }
        if st.code() == Some(2) {
            harness_err = true;
            continue;
        }
        if st.code() == Some(101) {
            // a panic that ended the worker's main thread: panics of the library are caught and
            // judged inside the run, so this one was raised by the harness itself
            eprintln!("[anysim] worker {} ended by a panic of the harness", w.wid);
            harness_err = true;
            continue;
        }
        // died: read the black box
        let bb = simcore::blackbox::read(&format!("{}/bb-{}", workdir, w.wid));
        let (idx, sub, why) = match bb {
            Some(r) if r.phase == 1 => {
                let st = if r.hang != 0 { format!("no progress for 15 s (hang), {:?}", st) } else { format!("{:?}", st) };
                let why = match simcore::simalloc::violation_text((r.alloc_code, r.a as usize, r.b as usize)) {
                    Some(t) => format!("worker died ({}); allocator monitor: {}", st, t),
                    None => format!("worker died ({})", st),
                };
                (r.index, r.sub, why)
            }
            _ => {
                eprintln!("[anysim] worker {} died outside a run ({:?})", w.wid, st);
                harness_err = true;
                continue;
            }
        };
        eprintln!("[anysim] worker {} died at run index {} variant {}: {}", w.wid, idx, sub, why);
        crashes.push((idx, sub, why));
        gen += 1;
        let remaining = t.cap_s.saturating_sub(start.elapsed().as_secs());
        if idx + 1 < w.hi && remaining > 2 && crashes.len() < 8 {
            ws.push(spawn(idx + 1, w.hi, format!("{}g{}", w.lo, gen), remaining));
        }
    }
    if harness_err {
        die2("a worker reported a harness error");
    }

    // merge
    let mut total = Agg::default();
    let mut viol_files: Vec<(String, String)> = Vec::new();
    let mut done_indices = 0u64;
    for rf in &res_files {
        let txt = std::fs::read_to_string(rf).unwrap_or_else(|e| die2(&format!("read {}: {}", rf, e)));
        let wid = rf.rsplit("res-").next().unwrap().to_string();
        for l in txt.lines() {
            let mut it = l.split_whitespace();
            match it.next() {
                Some("stat") => {
                    for kv in it {
                        let (k, v) = kv.split_once('=').unwrap();
                        let v: u64 = v.parse().unwrap_or(0);
                        match k {
                            "runs" => total.runs += v,
                            "base" => total.base_runs += v,
                            "steps" => total.steps += v,
                            "events" => total.events += v,
                            "seam" => total.seam += v,
                            "nontrivial" => total.nontrivial_runs += v,
                            "relaxed" => total.relaxed_steps += v,
                            "reloc" => total.relocations += v,
                            "maxlen" => total.max_len = total.max_len.max(v as usize),
                            "foreign" => total.foreign += v,
                            "unsupported" => total.unsupported += v,
                            "loghash" => total.log_hash ^= v,
                            "done" => done_indices += 0 * v,
                            _ => {}
                        }
                    }
                }
                Some("fired") => {
                    for (i, v) in it.enumerate() {
                        total.fired[i] += v.parse::<u64>().unwrap_or(0);
                    }
                }
                Some("probes") => {
                    for (i, v) in it.enumerate() {
                        total.probes[i] += v.parse::<u64>().unwrap_or(0);
                    }
                }
                Some("opnt") => {
                    for (i, v) in it.enumerate() {
                        total.op_nt[i] += v.parse::<u64>().unwrap_or(0);
                    }
                }
                Some("worlds") => {
                    for v in it {
                        total.worlds.insert(v.parse().unwrap_or(0));
                    }
                }
                Some("focus") => {
                    for v in it {
                        total.focus_seen.insert(u64::from_str_radix(v, 16).unwrap_or(0));
                    }
                }
                Some("hashes") => {
                    for v in it {
                        total.scen_hashes.insert(u64::from_str_radix(v, 16).unwrap_or(0));
                    }
                }
                Some("states") => {
                    for v in it {
                        total.states.insert(u64::from_str_radix(v, 16).unwrap_or(0));
                    }
                }
                Some("foreign") => {
                    let n: u64 = it.next().unwrap_or("0").parse().unwrap_or(0);
                    let sig = it.next().unwrap_or("").to_string();
                    let d = it.collect::<Vec<_>>().join(" ");
                    let e = total.foreign_sigs.entry(sig).or_insert((0, d));
                    e.0 += n;
                }
                Some("viol") => {
                    let k = it.next().unwrap_or("0");
                    let sig = it.collect::<Vec<_>>().join(" ");
                    viol_files.push((format!("{}/viol-{}-{}.scn", workdir, wid, k), sig));
                }
                _ => {}
            }
        }
        for k in 0..3 {
            if total.samples.len() < 4 {
                if let Ok(s) = std::fs::read_to_string(format!("{}/sample-{}-{}.scn", workdir, wid, k)) {
                    total.samples.push(s);
                }
            }
        }
    }
    let _ = done_indices;
    if total.samples.is_empty() {
        // always show at least one actual case of this batch
        let g = generate(seed, 0, &prof, &infos);
        let name = infos.iter().find(|i| i.id == g.scn.world).map(|i| i.name()).unwrap_or_default();
        total.samples.push(scn::to_text(&g.scn, &name, prop, "-", ""));
    }
    let wall_batch = start.elapsed().as_secs_f64();

    // triage: one representative per signature
    let known = known_findings();
    let mut by_sig: BTreeMap<String, String> = BTreeMap::new();
    for (f, sig) in viol_files {
        by_sig.entry(sig).or_insert(f);
    }
    let mut reported: Vec<(String, String, String)> = Vec::new(); // (sig, replay path, detail)
    let mut known_hit: Vec<(String, String)> = Vec::new();
    let mut unsupported_seen = false;
    simcore::registry::install_hook();
    let shrink_budget = if tier == "thorough" { 40 } else { 15 };
    for (sig, file) in by_sig.iter() {
        let txt = match std::fs::read_to_string(file) {
            Ok(t) => t,
            Err(_) => continue,
        };
        let parsed = match scn::from_text(&txt) {
            Ok(p) => p,
            Err(e) => die2(&format!("parse {}: {}", file, e)),
        };
        if sig.starts_with("unsupported") {
            unsupported_seen = true;
            eprintln!("[anysim] harness: unsupported step variant reached: {} ({})", sig, file);
            let _ = std::fs::copy(file, format!("{}/replays/harness-{}.scn", &home(), prop));
            continue;
        }
        // reproduce and minimise in a disposable sub-process: a violation may corrupt memory
        let outp = format!("{}/triage-{}.scn", workdir, by_sig.keys().position(|k| k == sig).unwrap_or(0));
        let st = engine_command(&exe, &format!("{}/replays/{}-memcheck.log", &home(), prop)).args(["triage", prop, tier, file, &outp]).stderr(std::process::Stdio::null()).status().unwrap_or_else(|e| die2(&format!("triage: {}", e)));
        let (min, vmin) = if st.code() == Some(0) {
            let t = std::fs::read_to_string(&outp).unwrap_or_else(|e| die2(&format!("read {}: {}", outp, e)));
            let pm = scn::from_text(&t).unwrap_or_else(|e| die2(&format!("parse {}: {}", outp, e)));
            let detail = t.lines().filter_map(|l| l.strip_prefix("# ")).collect::<Vec<_>>().join(" ");
            let mut v = crash_violation(&pm.scn, &infos, detail);
            v.class = Class::Triage;
            v.context = pm.expect.clone();
            (pm.scn, v)
        } else if st.code() == Some(3) {
            die2(&format!("violation {} from a worker did not reproduce in a fresh process: nondeterminism in the harness ({})", sig, file));
        } else {
            // the triage process itself died: treat as a crash-class violation
            eprintln!("[anysim] triage of {} died ({:?}): minimising as a crash", sig, st);
            let v0 = crash_violation(&parsed.scn, &infos, format!("process died while re-executing a violation first seen as {} ({:?})", sig, st));
            if !owned(prop, &v0) {
                eprintln!("[anysim]   crash not owned by {}: {}", prop, v0.detail);
                continue;
            }
            std::fs::create_dir_all(format!("{}/work", &home())).ok();
            let (m, _) = if violates(prop, &prof, &parsed.scn, Class::Crash, true).is_some() { shrink(prop, &prof, &parsed.scn, &v0, shrink_budget) } else { (parsed.scn.clone(), v0.clone()) };
            let mut v = crash_violation(&m, &infos, v0.detail.clone());
            v.context = format!("{}", m.steps.last().map(|s| s.op.name()).unwrap_or("nop"));
            (m, v)
        };
        let msig = vmin.signature();
        if let Some(k) = known.iter().find(|k| k.prop == prop && (k.sig == msig || k.sig == *sig)) {
            known_hit.push((k.sig.clone(), k.text.clone()));
            continue;
        }
        let name = infos.iter().find(|i| i.id == min.world).map(|i| i.name()).unwrap_or_default();
        let h = scn::scenario_hash(&min);
        let path = format!("{}/replays/{}-{:016x}.replay", &home(), prop, h);
        let detail = if vmin.class == Class::Triage { vmin.detail.clone() } else { format!("step {}: {}", vmin.step, vmin.detail) };
        std::fs::write(&path, scn::to_text(&min, &name, prop, &msig, &detail)).unwrap_or_else(|e| die2(&format!("write {}: {}", path, e)));
        // confirm in a fresh process
        let st = engine_command(&exe, &format!("{}/replays/{}-memcheck.log", &home(), prop)).args(["replay", &path, "--quiet"]).status().unwrap_or_else(|e| die2(&format!("replay: {}", e)));
        if st.code() != Some(1) {
            die2(&format!("minimised replay {} did not reproduce in a fresh process (status {:?})", path, st));
        }
        reported.push((msig, path, detail));
    }
    // crashes
    for (idx, sub, why) in crashes.iter() {
        let out = std::process::Command::new(&exe).args(["emit", prop, tier, &seed.to_string(), &idx.to_string(), &sub.to_string()]).output();
        let txt = match out {
            Ok(o) if o.status.success() => String::from_utf8_lossy(&o.stdout).to_string(),
            _ => {
                // the base run itself crashes while counting: emit variant 0
                match std::process::Command::new(&exe).args(["emit", prop, tier, &seed.to_string(), &idx.to_string(), "0"]).output() {
                    Ok(o) if o.status.success() => String::from_utf8_lossy(&o.stdout).to_string(),
                    _ => die2("could not regenerate the crashing scenario"),
                }
            }
        };
        let parsed = scn::from_text(&txt).unwrap_or_else(|e| die2(&format!("parse emitted scenario: {}", e)));
        let v0 = crash_violation(&parsed.scn, &infos, why.clone());
        if !owned(prop, &v0) {
            eprintln!("[anysim]   crash not owned by {}: {}", prop, why);
            continue;
        }
        std::fs::create_dir_all(format!("{}/work", &home())).ok();
        let (min, _) = if violates(prop, &prof, &parsed.scn, Class::Crash, true).is_some() { shrink(prop, &prof, &parsed.scn, &v0, shrink_budget) } else { (parsed.scn.clone(), v0.clone()) };
        let sig = format!("crash/{}", min.steps.last().map(|s| s.op.name()).unwrap_or("nop"));
        if let Some(k) = known.iter().find(|k| k.prop == prop && k.sig == sig) {
            known_hit.push((k.sig.clone(), k.text.clone()));
            continue;
        }
        if reported.iter().any(|r| r.0 == sig) {
            continue;
        }
        let name = infos.iter().find(|i| i.id == min.world).map(|i| i.name()).unwrap_or_default();
        let path = format!("{}/replays/{}-{:016x}.replay", &home(), prop, scn::scenario_hash(&min));
        std::fs::write(&path, scn::to_text(&min, &name, prop, &sig, why)).ok();
        reported.push((sig, path, why.clone()));
    }

    #[cfg(feature = "alloc")]
    let probe_json = if prop == "C18" { c18_probes(tier, &workdir, &mut reported, &known, &mut known_hit) } else { String::new() };
    #[cfg(not(feature = "alloc"))]
    let probe_json = String::new();
    let extra_json = if prop == "C19" { c19_differential(prop, tier, &mut reported, &infos) } else { String::new() };

    // evidence
    let wall = start.elapsed().as_secs_f64();
    let focus_total = prof.focus.len();
    let mut gaps: Vec<String> = Vec::new();
    if focus_total > 0 && total.focus_seen.len() < focus_total {
        gaps.push(format!("focus tuples reached {} of {}", total.focus_seen.len(), focus_total));
    }
    let mut ev = String::new();
    ev.push_str("{\n");
    ev.push_str(&format!("  \"property_id\": {},\n", json_str(prop)));
    ev.push_str(&format!("  \"tier\": {},\n", json_str(if tier.starts_with("thorough") { "thorough" } else { "quick" })));
    ev.push_str(&format!("  \"seed\": {},\n", seed));
    ev.push_str(&format!("  \"level\": {},\n", json_str(level_of(prop))));
    ev.push_str("  \"coverage\": {\n");
    ev.push_str(&format!("    \"evaluations\": {},\n", total.runs));
    ev.push_str(&format!("    \"distinct_nontrivial\": {},\n", total.scen_hashes.len()));
    ev.push_str(&format!(
        "    \"rule\": {},\n",
        json_str("one evaluation = one simulated run (scenario executed step by step against the Vec model, all oracles after every step). Scenarios are generated from (VERIF_SEED, run index): swarm-style random histories with a stratified focus step (run i visits focus tuple i mod N on world (i/N) mod W; length and index classes cycle behind). For C05/C06/C07 each generated history is additionally re-run once per enumerated fault / cancellation point of its focus step. distinct = distinct hash of the complete scenario (world, policy, steps, faults); non-trivial = the run finished clean AND the property-relevant step kind was evaluated on a non-empty vector (fault properties: the planned fault actually fired).")
    ));
    ev.push_str(&format!("    \"samples\": [{}],\n", total.samples.iter().map(|s| json_str(s)).collect::<Vec<_>>().join(", ")));
    ev.push_str(&format!("    \"generated_histories\": {},\n", total.base_runs));
    ev.push_str(&format!("    \"steps\": {},\n", total.steps));
    ev.push_str(&format!("    \"observed_events\": {},\n", total.events));
    ev.push_str(&format!("    \"seam_events\": {},\n", total.seam));
    ev.push_str(&format!("    \"relaxed_steps\": {},\n", total.relaxed_steps));
    ev.push_str(&format!("    \"storage_relocations\": {},\n", total.relocations));
    ev.push_str(&format!("    \"max_vector_len\": {},\n", total.max_len));
    ev.push_str(&format!("    \"runs_per_hour\": {},\n", if wall_batch > 0.0 { (total.runs as f64 / wall_batch * 3600.0) as u64 } else { 0 }));
    ev.push_str(&format!("    \"seeds_per_hour\": {},\n", if wall_batch > 0.0 { (total.base_runs as f64 / wall_batch * 3600.0) as u64 } else { 0 }));
    ev.push_str("    \"simulated_time\": \"not applicable: the library has no clock, timer or I/O; progress is measured in steps and seam events\",\n");
    ev.push_str("    \"faults_fired\": {");
    ev.push_str(&(1..13).map(|i| format!("{}: {}", json_str(FAULT_NAMES[i]), total.fired[i])).collect::<Vec<_>>().join(", "));
    ev.push_str("},\n");
    ev.push_str("    \"probes\": {");
    ev.push_str(&(0..16).map(|i| format!("{}: {}", json_str(PROBE_NAMES[i]), total.probes[i])).collect::<Vec<_>>().join(", "));
    ev.push_str("},\n");
    ev.push_str("    \"nontrivial_steps_by_op\": {");
    ev.push_str(&(1..22).map(|i| format!("{}: {}", json_str(OP_NAMES[i]), total.op_nt[i])).collect::<Vec<_>>().join(", "));
    ev.push_str("},\n");
    ev.push_str(&format!("    \"focus_tuples_reached\": {},\n", total.focus_seen.len()));
    ev.push_str(&format!("    \"focus_tuples_total\": {},\n", focus_total));
    ev.push_str(&format!("    \"distinct_abstract_states\": {},\n", total.states.len()));
    ev.push_str(&format!("    \"worlds_exercised\": {},\n", total.worlds.len()));
    ev.push_str(&format!("    \"worlds_eligible\": {},\n", infos.iter().filter(|w| (prof.world_ok)(w)).count()));
    ev.push_str(&format!("    \"runs_stopped_by_foreign_violation\": {},\n", total.foreign));
    ev.push_str(&format!("    \"worker_crashes\": {},\n", crashes.len()));
    ev.push_str(&format!("    \"reach_gaps\": [{}],\n", gaps.iter().map(|g| json_str(g)).collect::<Vec<_>>().join(", ")));
    ev.push_str(&format!("    \"known_findings_hit\": [{}],\n", known_hit.iter().map(|k| json_str(&k.0)).collect::<Vec<_>>().join(", ")));
    ev.push_str(&format!("    \"violations_reported\": [{}],\n", reported.iter().map(|r| json_str(&format!("{} {}", r.0, r.1))).collect::<Vec<_>>().join(", ")));
    ev.push_str("    \"components\": {\"real\": [\"any_vec (all of /repo/src, rebuilt from the working tree)\", \"mem::Heap\", \"mem::Stack\", \"mem::StackN\"], \"simulated\": [\"user-defined back end SimMem/SimBuilder\", \"global allocator SimAlloc\", \"element types with Drop/Clone fuses\", \"replacement iterators\", \"client issuing API calls\", \"placement arena\"], \"model\": [\"Vec<tag> per vector + ownership ledger\"]},\n");
    ev.push_str(&format!("    \"engine\": {},\n", json_str(if memcheck_engine() { "Valgrind memcheck on the release-like binary, simulator's own storage instrumentation off" } else if cfg!(debug_assertions) { "native, checked profile (debug assertions + overflow checks)" } else { "native, release-like profile" })));
    ev.push_str(&extra_json);
    ev.push_str(&probe_json);
    if tier == "thorough" {
        let mp = format!("{}/evidence/{}.memcheck.json", &home(), prop);
        let fresh = std::fs::metadata(&mp).ok().and_then(|m| m.modified().ok()).and_then(|t| t.elapsed().ok()).map(|d| d.as_secs() < 3600).unwrap_or(false);
        if fresh {
            if let Ok(t) = std::fs::read_to_string(&mp) {
                let grab = |key: &str| -> String {
                    t.lines().find(|l| l.trim_start().starts_with(&format!("\"{}\":", key))).map(|l| l.trim().trim_end_matches(',').splitn(2, ':').nth(1).unwrap_or("0").trim().to_string()).unwrap_or_else(|| "0".to_string())
                };
                ev.push_str(&format!(
                    "    \"memcheck_engine\": {{\"evaluations\": {}, \"distinct_nontrivial\": {}, \"violations\": {}, \"note\": \"same seeds under Valgrind memcheck with SimMem blocks and Heap blocks as plain malloc blocks; full record in {}.memcheck.json\"}},\n",
                    grab("evaluations"), grab("distinct_nontrivial"), grab("violations"), prop
                ));
            }
        }
        // summary of the checked-profile engine run by ./check just before this one
        let cp = format!("{}/evidence/{}.checked.json", &home(), prop);
        let fresh = std::fs::metadata(&cp).ok().and_then(|m| m.modified().ok()).and_then(|t| t.elapsed().ok()).map(|d| d.as_secs() < 3600).unwrap_or(false);
        if fresh {
            if let Ok(t) = std::fs::read_to_string(&cp) {
                let grab = |key: &str| -> String {
                    t.lines().find(|l| l.trim_start().starts_with(&format!("\"{}\":", key))).map(|l| l.trim().trim_end_matches(',').splitn(2, ':').nth(1).unwrap_or("0").trim().to_string()).unwrap_or_else(|| "0".to_string())
                };
                ev.push_str(&format!(
                    "    \"checked_profile_engine\": {{\"evaluations\": {}, \"distinct_nontrivial\": {}, \"violations\": {}, \"note\": \"same simulator built with debug assertions and overflow checks; full record in {}.checked.json\"}},\n",
                    grab("evaluations"), grab("distinct_nontrivial"), grab("violations"), prop
                ));
            }
        }
    }
    ev.push_str("    \"exhaustive\": false\n");
    ev.push_str("  },\n");
    ev.push_str("  \"assumptions\": [\"sampling of histories, not proof\", \"guard zones / poison / quarantine detect out-of-bounds and stale accesses only when they land on instrumented bytes or surface in a result\", \"the Vec-of-tags model and the harness adapter are trusted\", \"rustc/LLVM and the release-like profile used to build the library\"],\n");
    ev.push_str(&format!("  \"wall_s\": {:.2},\n", wall));
    ev.push_str(&format!("  \"violations\": {}\n", reported.len()));
    ev.push_str("}\n");
    let evpath = if tier == "thorough-valgrind" {
        format!("{}/evidence/{}.memcheck.json", &home(), prop)
    } else if tier == "thorough-checked" { format!("{}/evidence/{}.checked.json", &home(), prop) } else { format!("{}/evidence/{}.json", &home(), prop) };
    std::fs::write(&evpath, ev).unwrap_or_else(|e| die2(&format!("write {}: {}", evpath, e)));

    for g in &gaps {
        eprintln!("[anysim] reach gap: {}", g);
    }
    eprintln!(
        "[anysim] {} {}: {} runs ({} histories) in {:.1}s, {} distinct non-trivial, {} steps, faults fired {:?}",
        prop,
        tier,
        total.runs,
        total.base_runs,
        wall,
        total.scen_hashes.len(),
        total.steps,
        &total.fired[1..7]
    );
    for (sig, (n, d)) in total.foreign_sigs.iter() {
        eprintln!("[anysim]   not owned by {}: {} x{} e.g. {}", prop, sig, n, d);
    }
    let mut seen = HashSet::new();
    for (sig, text) in &known_hit {
        if seen.insert(sig.clone()) {
            println!("KNOWN-FINDING: property={} {} [{}]", prop, text, sig);
        }
    }
    for (sig, path, detail) in &reported {
        println!("VIOLATION property={} replay={}", prop, path);
        eprintln!("[anysim]   {} :: {}", sig, detail);
    }
    let _ = std::fs::remove_dir_all(&workdir);
    std::io::stdout().flush().ok();
    if unsupported_seen {
        die2("unsupported step variant reached (harness gap)");
    }
    if reported.is_empty() {
        0
    } else {
        1
    }
}

fn replay(path: &str, trace: bool, quiet: bool) -> i32 {
    let txt = std::fs::read_to_string(path).unwrap_or_else(|e| die2(&format!("read {}: {}", path, e)));
    let parsed = scn::from_text(&txt).unwrap_or_else(|e| die2(&format!("parse {}: {}", path, e)));
    let prop = if parsed.prop.is_empty() { "C01".to_string() } else { parsed.prop.clone() };
    let prof = profile(&prop).unwrap_or_else(|| die2("unknown property in replay file"));
    simcore::registry::install_hook();
    let rep = run_one(&prop, &prof, &parsed.scn, None, trace);
    if trace {
        for l in &rep.trace {
            println!("{}", l);
        }
    }
    if !quiet {
        println!("log-hash {:016x} steps {}", rep.hash, rep.steps);
    }
    match rep.violation {
        Some(v) => {
            let own = owned(&prop, &v);
            if !quiet {
                println!("{} {} :: step {}: {}", if own { "violation" } else { "foreign-violation" }, v.signature(), v.step, v.detail);
                if own {
                    println!("VIOLATION property={} replay={}", prop, path);
                }
            }
            if own {
                1
            } else {
                0
            }
        }
        None => {
            if !quiet {
                println!("no violation");
            }
            0
        }
    }
}

fn main() {
    let args: Vec<String> = std::env::args().skip(1).collect();
    if args.is_empty() {
        die2("usage: anysim check|worker|replay|run|emit|list-worlds|selftest-determinism ...");
    }
    match args[0].as_str() {
        "check" => {
            let code = check(&args[1], args.get(2).map(|s| s.as_str()).unwrap_or("quick"));
            std::process::exit(code);
        }
        "worker" => worker(&args[1..]),
        "replay" => {
            let trace = args.iter().any(|a| a == "--trace");
            let quiet = args.iter().any(|a| a == "--quiet");
            start_watchdog(if memcheck_engine() { 300 } else if quiet { 5 } else { 15 });
            std::process::exit(replay(&args[1], trace, quiet));
        }
        "run" => {
            let prop = args[1].as_str();
            let seed: u64 = args[2].parse().unwrap();
            let index: u64 = args[3].parse().unwrap();
            let trace = args.iter().any(|a| a == "--trace");
            let prof = profile(prop).unwrap_or_else(|| die2("unknown property"));
            let infos = world_infos();
            simcore::registry::install_hook();
            let g = generate(seed, index, &prof, &infos);
            let name = infos.iter().find(|i| i.id == g.scn.world).unwrap().name();
            let rep = run_one(prop, &prof, &g.scn, g.focus_step, trace);
            if trace {
                println!("{}", scn::to_text(&g.scn, &name, prop, "-", ""));
                for l in &rep.trace {
                    println!("{}", l);
                }
            }
            println!("world {} focus {:?} at {:?} hash {:016x} focus-counts {:?}", name, g.focus, g.focus_step, rep.hash, rep.focus);
            match rep.violation {
                Some(v) => println!("violation {} owned={} :: step {}: {}", v.signature(), owned(prop, &v), v.step, v.detail),
                None => println!("clean"),
            }
        }
        "emit" => {
            start_watchdog(15);
            let prop = args[1].as_str();
            let tier = args[2].as_str();
            let seed: u64 = args[3].parse().unwrap();
            let index: u64 = args[4].parse().unwrap();
            let variant: usize = args[5].parse().unwrap();
            let prof = profile(prop).unwrap_or_else(|| die2("unknown property"));
            let infos = world_infos();
            simcore::registry::install_hook();
            let g = generate(seed, index, &prof, &infos);
            let name = infos.iter().find(|i| i.id == g.scn.world).unwrap().name();
            let s = if variant == 0 {
                g.scn.clone()
            } else {
                let rep = run_one(prop, &prof, &g.scn, g.focus_step, false);
                let vs = variants(prop, &g, &rep, tier_for(prop, tier).variants);
                vs.get(variant - 1).cloned().unwrap_or_else(|| die2("no such variant"))
            };
            print!("{}", scn::to_text(&s, &name, prop, "crash", ""));
        }
        #[cfg(feature = "alloc")]
        "probe" => {
            // probe <elem> <kind> <n> <prefill> <blackbox>
            simcore::registry::install_hook();
            simcore::blackbox::open(&args[5]);
            simcore::blackbox::note_run(0, 0, 1, 0);
            let code = probe::run(&args[1], &args[2], args[3].parse().unwrap(), args[4].parse().unwrap());
            std::process::exit(code);
        }
        "triage" => {
            // triage <prop> <tier> <violation file> <out file>: reproduce and minimise in this
            // (disposable) process; exit 0 = minimised scenario written, 3 = did not reproduce
            start_watchdog(if memcheck_engine() { 600 } else { 60 });
            let prop = args[1].as_str();
            let tier = args[2].as_str();
            let prof = profile(prop).unwrap_or_else(|| die2("unknown property"));
            simcore::registry::install_hook();
            let txt = std::fs::read_to_string(&args[3]).unwrap_or_else(|e| die2(&format!("read: {}", e)));
            let parsed = scn::from_text(&txt).unwrap_or_else(|e| die2(&format!("parse: {}", e)));
            let rep = run_one(prop, &prof, &parsed.scn, None, false);
            beat();
            let v0 = match rep.violation {
                Some(v) if owned(prop, &v) => v,
                _ => std::process::exit(3),
            };
            let budget = if tier == "thorough" { 40 } else { 15 };
            let (min, vmin) = shrink(prop, &prof, &parsed.scn, &v0, budget);
            let infos = world_infos();
            let name = infos.iter().find(|i| i.id == min.world).map(|i| i.name()).unwrap_or_default();
            let detail = format!("step {}: {}", vmin.step, vmin.detail);
            std::fs::write(&args[4], scn::to_text(&min, &name, prop, &vmin.signature(), &detail)).unwrap_or_else(|e| die2(&format!("write: {}", e)));
            std::process::exit(0);
        }
        "list-worlds" => {
            for w in world_infos() {
                println!("{:4} {}", w.id, w.name());
            }
        }
        "selftest-determinism" => {
            let prop = args[1].as_str();
            let n: u64 = args[2].parse().unwrap();
            let seed = batch_seed();
            let prof = profile(prop).unwrap_or_else(|| die2("unknown property"));
            let infos = world_infos();
            simcore::registry::install_hook();
            let lo: u64 = args.get(3).and_then(|s| s.parse().ok()).unwrap_or(0);
            for i in lo..lo + n {
                let g = generate(seed, i, &prof, &infos);
                let rep = run_one(prop, &prof, &g.scn, g.focus_step, false);
                println!("{} {:016x} {:016x} {}", i, scn::scenario_hash(&g.scn), rep.hash, rep.violation.map(|v| v.signature()).unwrap_or_default());
            }
        }
        _ => die2("unknown sub-command"),
    }
}
